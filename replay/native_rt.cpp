// Native runtime for harness replays: the harness TU (which #includes the real sources) is linked with this file.
// usage: <exe> <entry-symbol> <p0,p1,...> <nd0-hex> <nd1-hex> ...
#include <cmath>
#include <cstdint>
#include <cstdio>
#include <cstdlib>
#include <cstring>
#include <dlfcn.h>
#include <exception>
#include <string>
#include <typeinfo>
#include <vector>

static std::vector<std::uint64_t> g_nd;
static size_t g_nd_i = 0;
static std::vector<int> g_params;
static int g_failed = 0;

static std::uint64_t nd(std::uint64_t mask) {
    std::uint64_t v = g_nd_i < g_nd.size() ? g_nd[g_nd_i] : 0;
    ++g_nd_i;
    return v & mask;
}
static double u2d(std::uint64_t u) { double d; std::memcpy(&d, &u, 8); return d; }

extern "C" {
std::uint64_t verif_nd_u64() { return nd(~0ULL); }
std::uint32_t verif_nd_u32() { return (std::uint32_t)nd(0xffffffffULL); }
int verif_nd_int() { return (int)(std::uint32_t)nd(0xffffffffULL); }
std::uint8_t verif_nd_u8() { return (std::uint8_t)nd(0xff); }
bool verif_nd_bool() { return nd(1) != 0; }
void verif_assume(bool c) {
    if (!c) { std::printf("ASSUME-FAILED\n"); std::fflush(stdout); std::_Exit(4); }
}
// VERIF_GENERIC_SEED=k: floating-point draws are replaced by pseudo-random *generic* values (non-zero, pairwise
// different, moderate magnitude). Used to confirm a term-level (uninterpreted-function) counterexample numerically:
// if two expressions differ as terms, they differ on generic inputs; the solver's own model may sit on a degenerate point.
static std::uint64_t g_rng = 0;
static bool g_generic = false;
static double generic_double() {
    g_rng = g_rng * 6364136223846793005ULL + 1442695040888963407ULL;
    double u = (double)((g_rng >> 11) & ((1ULL << 40) - 1)) / (double)(1ULL << 40);  // [0,1)
    double v = 0.25 + 1.5 * u;                                                      // [0.25,1.75)
    return (g_rng >> 7) & 1 ? -v : v;
}
double verif_nd_double() {
    if (g_generic) { nd(0); return generic_double(); }
    std::uint64_t u = nd(~0ULL);
    std::uint64_t e = (u >> 52) & 0x7ff;
    verif_assume((u & ~0x8000000000000000ULL) == 0 || (e >= 1023 - 30 && e <= 1023 + 30));
    return u2d(u);
}
double verif_nd_unit() {
    if (g_generic && !std::getenv("VERIF_GENERIC_KEEP_UNIT")) { nd(0); double v = generic_double(); return std::fabs(v) / 2.0; }
    std::uint64_t u = nd(~0ULL);
    verif_assume(u < 0x3FF0000000000000ULL);
    return u2d(u);
}
int verif_param(int i) { return (i >= 0 && (size_t)i < g_params.size()) ? g_params[i] : 0; }
void verif_assert(bool c, const char* msg) {
    if (!c) { ++g_failed; std::printf("ASSERT-FAILED %s\n", msg); std::fflush(stdout); }
}
bool verif_feq(double a, double b) {
    if (std::isnan(a) || std::isnan(b)) return false;
    double d = std::fabs(a - b);
    double s = std::fmax(1.0, std::fmax(std::fabs(a), std::fabs(b)));
    return d <= 1e-9 * s;
}
void verif_reach() {}
bool verif_native() { return true; }
void verif_note(int tag, std::uint64_t v) { std::printf("NOTE %d %llx\n", tag, (unsigned long long)v); }
}

int main(int argc, char** argv) {
    if (argc < 3) { std::fprintf(stderr, "usage: %s entry p0,p1,.. nd...\n", argv[0]); return 2; }
    for (char* tok = std::strtok(argv[2], ","); tok; tok = std::strtok(nullptr, ",")) g_params.push_back(std::atoi(tok));
    for (int i = 3; i < argc; ++i) g_nd.push_back(std::strtoull(argv[i], nullptr, 16));
    if (const char* gs = std::getenv("VERIF_GENERIC_SEED")) { g_generic = true; g_rng = std::strtoull(gs, nullptr, 10) * 0x9E3779B97F4A7C15ULL + 12345; }
    void* sym = dlsym(RTLD_DEFAULT, argv[1]);
    if (!sym) { std::fprintf(stderr, "no entry %s\n", argv[1]); return 2; }
    try {
        reinterpret_cast<void (*)()>(sym)();
    } catch (const std::exception& e) {
        std::printf("UNCAUGHT %s: %s\n", typeid(e).name(), e.what());
        return 5;
    } catch (...) {
        std::printf("UNCAUGHT unknown exception type\n");
        return 5;
    }
    std::printf("DRAWS %zu\n", g_nd_i);
    if (g_failed) return 1;
    std::printf("OK\n");
    return 0;
}
