/* native driver for generated C (translator validation): reads nondet inputs as hex u64 from argv/stdin */
#include <stdio.h>
#include <stdlib.h>
#include <stdint.h>
#include <string.h>
typedef unsigned long long ir2c_u64;
int ir2c_native_failed;
const char* ir2c_native_fail_msg;
ir2c_u64 ir2c_native_input[4096];
int ir2c_native_input_n;
void ir2c_native_note(uint32_t tag, uint64_t v) { printf("NOTE %u %llx\n", tag, (unsigned long long)v); }
extern void VERIF_ENTRY(void);
extern int ir2c_nd_n;
int main(int argc, char** argv) {
  for (int i = 1; i < argc && ir2c_native_input_n < 4096; i++) ir2c_native_input[ir2c_native_input_n++] = strtoull(argv[i], 0, 16);
  VERIF_ENTRY();
  printf("DRAWS %d\n", ir2c_nd_n);
  if (ir2c_native_failed) { printf("ASSERT-FAILED %s\n", ir2c_native_fail_msg); return 1; }
  printf("OK\n");
  return 0;
}
