"""C05: the emitted OpenQASM lists what was simulated (simulator log)."""
import vcheck
from vcheck import Query

KINDS = ['h', 'x', 'y', 'z', 'rx', 'ry', 'rz', 'cx', 'reset', 'measure']
ENTRIES = ['harness_log_step', 'harness_flags']


def q_(name, entry, params, desc, tier):
    return Query(name, harness='C05_log.cpp', entry=entry, params=params, mode='sat', fp='uf', defines=['-DIR2C_FP_HAVOC'],
                 checks='full', unwind=140, witness=True, timeout=300 if tier == 'quick' else 900, all_entries=ENTRIES, desc=desc)


def queries(tier):
    qs = []
    ns = [2] if tier == 'quick' else [1, 2, 3]
    for n in ns:
        for k, kn in enumerate(KINDS):
            if kn == 'cx':
                pairs = [(c, t) for c in range(-1, n + 1) for t in range(-1, n + 1)] if tier != 'quick' else \
                        [(0, 1), (1, 0), (0, 0), (1, 1), (0, 2), (2, 0), (-1, 0)]
                for c, t in pairs:
                    for lg in (1, 0):
                        qs.append(q_('log:cx n=%d c=%d t=%d log=%d' % (n, c, t, lg), 'harness_log_step', [n, k, c, t, lg],
                                     'cx(%d,%d) on %d qubits, logging=%d: performed/refused, exact log line, getQasm text' % (c, t, n, lg), tier))
            else:
                for q in range(-1, n + 1):
                    for lg in (1, 0):
                        qs.append(q_('log:%s n=%d q=%d log=%d' % (kn, n, q, lg), 'harness_log_step', [n, k, q, 0, lg],
                                     '%s(%d) on %d qubits, logging=%d: performed/refused, exact log line, getQasm text' % (kn, q, n, lg), tier))
    return qs


META = dict(
    level_text='bounded symbolic execution of every logging site of QasmSimulator with the real std::string / vector<string> code: '
               'one line per performed operation, byte-for-byte text, none for refused ones, getQasm assembly',
    assumptions=['std::to_string(double) is replaced by a fixed token (six-decimal formatting is libc, outside the claim)',
                 'FP results are arbitrary (havoc) - the log text does not depend on them', 'operator new never fails'],
    bounds={'n': '2 quick / 1..3 thorough', 'operands': 'every index in -1..n'},
    outside=['replay on an independent OpenQASM interpreter', '.qasm file vs --emit-qasm (CLI I/O)', 'angle digits', 'multi-shot logs'],
)


def run(tier):
    return vcheck.run_check('C05', tier, queries(tier), META)
