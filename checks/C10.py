"""C10: acceptance does not depend on top-level declaration order (analyser, two functions)."""
import vcheck
import C16


def queries(tier):
    qs = []
    for k in (0, 1, 2):
        for extra in (0, 1):
            for order in (0, 1):
                qs.append(C16.aq('order %s k=%d %s' % ('callee-first' if order == 0 else 'caller-first', k, 'mismatch' if extra else 'match'),
                                 'harness_order', [order, k, extra],
                                 'main calls gg with %d argument(s), gg declares %d int parameter(s), %s: verdict must be %s in either order; node positions symbolic'
                                 % (k + extra, k, 'gg declared first' if order == 0 else 'main declared first', 'Semantic error' if extra else 'accepted'), tier))
    return qs


META = dict(
    level_text='bounded symbolic execution of the real SemanticAnalyser::analyse on two-function programs in both orders: the verdict is a function of the '
               'program\'s content (call matches signature or not), never of the order of the declarations',
    assumptions=['programs enumerated (order x arity x match), node positions symbolic'],
    bounds={'declarations': 2, 'parameters': '0..2'},
    outside=['class order (derived before base) in the analyser and in buildClassTable', 'module merge order', 'permutations of more than two declarations', 'printed output'],
)


def run(tier):
    return vcheck.run_check('C10', tier, queries(tier), META)
