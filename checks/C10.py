"""C10: acceptance does not depend on top-level declaration order (analyser, two functions)."""
import vcheck
import C16
from E2_common import class_order_queries


def queries(tier):
    qs = []
    for k in (0, 1, 2):
        for extra in (0, 1):
            for order in (0, 1):
                qs.append(C16.aq('order %s k=%d %s' % ('callee-first' if order == 0 else 'caller-first', k, 'mismatch' if extra else 'match'),
                                 'harness_order', [order, k, extra],
                                 'main calls gg with %d argument(s), gg declares %d int parameter(s), %s: verdict must be %s in either order; node positions symbolic'
                                 % (k + extra, k, 'gg declared first' if order == 0 else 'main declared first', 'Semantic error' if extra else 'accepted'), tier))
    names = ['Shape,Polygon,Square', 'Shape,Square,Polygon', 'Polygon,Shape,Square', 'Polygon,Square,Shape', 'Square,Shape,Polygon', 'Square,Polygon,Shape']
    for perm in (range(6) if tier != 'quick' else (0, 3, 5)):
        for impl in (0, 1):
            qs.append(C16.aq('analyser class-order %s %s' % (names[perm].replace(',', '-'), 'implemented' if impl else 'abstract'), 'harness_class_order_an', [perm, impl],
                             'classes Shape {virtual area();} Polygon extends Shape {} Square extends Polygon {%s} declared in the order %s, main does new Square(): '
                             'verdict must be %s in every order; node positions symbolic' % ('override area()' if impl else '', names[perm], 'accepted' if impl else 'Semantic error'), tier))
    return qs + class_order_queries(tier)


META = dict(
    level_text='bounded symbolic execution of the real SemanticAnalyser::analyse on two-function programs in both orders (the verdict is a function of the '
               'program\'s content, never of the order of the declarations) and of the real RuntimeEvaluator::buildClassTable on two- and three-class '
               'hierarchies in every declaration order (layouts, slots and dispatch entries are the same in every order)',
    assumptions=['programs enumerated (order x arity x match; class declaration permutations), node positions symbolic',
                 'runtimeSignatureLabel modelled (name + one letter per parameter kind; the real one formats through std::ostringstream)'],
    bounds={'function declarations': 2, 'parameters': '0..2', 'classes': '2 (both orders), 3-chain (all 6 orders thorough, 2 quick)'},
    outside=['class order in the analyser (classes are hand-built past it)', 'generic bases and generic class templates', 'module merge order', 'permutations of more than two function declarations or of hierarchies other than the 3-chain', 'printed output'],
)


def run(tier):
    return vcheck.run_check('C10', tier, queries(tier), META)
