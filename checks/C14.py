"""C14: the parser realises the documented precedence / associativity (expression forms)."""
import vcheck
from vcheck import Query

ENTRIES = ['harness_two_ops', 'harness_unary_mix', 'harness_parens', 'harness_assign', 'harness_annotations']
LEVEL_REPS = [0, 1, 2, 3, 4, 5, 7, 11, 13]      # one operator index per precedence level
SAME_LEVEL = [(5, 6), (6, 5), (7, 8), (9, 10), (11, 12), (12, 11), (13, 14), (15, 13), (14, 15)]


def pq(name, entry, params, desc, tier):
    return Query(name, harness='C14_parser.cpp', entry=entry, params=params, mode='sat', fp='exact', checks='full', unwind=12,
                 unwindset=['memcmp.0:12', 'strlen.0:48'], witness=True, timeout=300, all_entries=ENTRIES, desc=desc, mem_gb=12)


def queries(tier):
    qs = []
    ops = range(16) if tier != 'quick' else LEVEL_REPS
    pairs = [(a, b) for a in ops for b in ops]
    if tier == 'quick':
        pairs += SAME_LEVEL
    for a, b in pairs:
        qs.append(pq('two-ops o1=%d o2=%d' % (a, b), 'harness_two_ops', [a, b],
                     'a o1 b o2 c for binary operators #%d,#%d: tree shape dictated by the grammar levels; token positions symbolic' % (a, b), tier))
    for u in range(3):
        for b in ops:
            qs.append(pq('prefix-binary u=%d o=%d' % (u, b), 'harness_unary_mix', [0, u, 0, b], '(u a) o b', tier))
    for p_ in range(2):
        for b in ops:
            qs.append(pq('postfix-binary p=%d o=%d' % (p_, b), 'harness_unary_mix', [1, 0, p_, b], '(a p) o b', tier))
        for u in range(3):
            qs.append(pq('prefix-postfix u=%d p=%d' % (u, p_), 'harness_unary_mix', [2, u, p_, 0], 'u (a p)', tier))
    for u in range(3):
        for w in range(2):
            qs.append(pq('prefix-prefix u=%d w=%d' % (u, w), 'harness_unary_mix', [3, u, w, 11], '(u (w a)) + b', tier))
    par = [(a, b) for a in LEVEL_REPS[::2] for b in LEVEL_REPS[1::2]] if tier == 'quick' else [(a, b) for a in range(16) for b in range(16)]
    for a, b in par:
        for shape in (0, 1):
            qs.append(pq('parens shape=%d o1=%d o2=%d' % (shape, a, b), 'harness_parens', [shape, a, b], 'explicit parentheses force the grouping', tier))
    for b in ops:
        qs.append(pq('assign-value o=%d' % b, 'harness_assign', [0, b], 'a = b o c', tier))
        qs.append(pq('assign-target o=%d' % b, 'harness_assign', [2, b], 'a o b = c is a Parse error', tier))
    qs.append(pq('assign-chain', 'harness_assign', [1, 0], 'a = b = c is right-associative', tier))
    ARR = ['@quantum', '@tracked', '@quantum @tracked', '@tracked @quantum', '@shots(5)']
    for k, a in enumerate(ARR):
        qs.append(pq('annotations arr=%d' % k, 'harness_annotations', [k], 'parseAnnotations on "%s public function": accepted, kinds and order recorded' % a, tier))
    return qs


META = dict(
    level_text='bounded symbolic execution of the real Pratt parser (parseExpression and everything it reaches) on short token streams: the '
               'returned tree must have the shape the grammar levels of docs/grammar.md dictate; every token position is symbolic',
    assumptions=['operator kinds are enumerated per query (a symbolic kind gives no verdict: 300 s timeout); token streams are built directly, '
                 'bypassing the lexer; __dynamic_cast is modelled for single inheritance; heap zero-initialised; new never fails'],
    bounds={'forms': 'a o1 b o2 c; (u a) o b; (a p) o b; u (a p); u w a o b; parenthesised groups; assignment chains',
            'operators': 'one per level + same-level pairs (quick) / all 16x16 (thorough)'},
    outside=['statements, declarations and whole classes (parse() on `class A { }` gives no verdict in 300 s); only the annotation list of a member is driven', 'general render-then-parse round trip over arbitrary trees',
             'literal spelling, generic type arguments, casts'],
)


def run(tier):
    return vcheck.run_check('C14', tier, queries(tier), META)
