"""C17: @tracked accounting in the evaluator (endScope step)."""
import vcheck
from E2_common import eq

ENTRIES = ['harness_endscope']


def queries(tier):
    qs = []
    for i, k in enumerate(['tracked qubit', 'untracked qubit']):
        qs.append(eq('endscope %s' % k, 'E2_tracked.cpp', 'harness_endscope', ENTRIES, [i, 0],
                     'endScope with a closing-scope entry of kind "%s": last measurements (-1/0/1 per qubit) and prior counts symbolic; exactly one '
                     'outcome recorded, the right one, other keys untouched' % k, tier, timeout=900, unwind=24))
    for c in (range(9) if tier != 'quick' else []):   # qubit[] entries: no verdict within 900 s; thorough only
        qs.append(eq('endscope tracked qubit[2] lm=(%d,%d)' % (c // 3 - 1, c % 3 - 1), 'E2_tracked.cpp', 'harness_endscope', ENTRIES, [2, c],
                     'endScope with a tracked qubit[2] whose elements\' last measurements are (%d,%d) (-1 = never): prior counts symbolic; exactly one '
                     'outcome, the bit string in index order or ?' % (c // 3 - 1, c % 3 - 1), tier, timeout=900, unwind=24))
    return qs


META = dict(
    level_text='one endScope() step of the real evaluator from arbitrary prior counts and arbitrary last-measurement records (symbolic): each tracked '
               'entry contributes exactly one outcome - the bit string of last measurements in index order, or ? - and nothing else changes',
    assumptions=['entry kind and, for arrays, the elements\' last-measurement records enumerated (all 9 combinations); prior counts symbolic; std::_Hash_bytes constant; heap zero-initialised'],
    bounds={'entries per scope': 1, 'array length': 2},
    outside=['CLI shot loop, @shots vs --shots precedence, probabilities, echo policy (cli.cpp: inline I/O code, not encoded)',
             'tracked object fields (destroyObject path)'],
)


def run(tier):
    return vcheck.run_check('C17', tier, queries(tier), META)
