"""C07: classical evaluation agrees with the documented semantics (expression kernel)."""
import vcheck
from E2_common import eq

OPS = ["+", "-", "*", "/", "%", "==", "!=", "<", ">", "<=", ">=", "&&", "||", "&", "|", "^"]
TYPES = ['int', 'long', 'bit', 'boolean', 'float']
EXPR_ENTRIES = ['harness_binop']


QUICK = [  # (operator, lhs type, rhs type, divisor entry or 0)
    (0, 0, 0, 0), (0, 0, 1, 0), (0, 0, 4, 0), (1, 1, 0, 0), (1, 0, 1, 0), (2, 1, 1, 0), (2, 0, 1, 0),
    (3, 0, 0, 1), (3, 0, 0, 3), (3, 1, 4, 1),
    (4, 0, 0, 1), (4, 0, 0, 3), (4, 1, 1, 3), (4, 0, 1, 6),
    (5, 0, 1, 0), (7, 0, 4, 0), (9, 1, 1, 0),
    (11, 3, 3, 0), (12, 2, 3, 0), (13, 2, 2, 0), (15, 2, 2, 0)]


def one(prop, o, a, b, dv, tier):
    if o in (3, 4):
        return eq('%s: %s %s %s divisor#%d' % (prop, TYPES[a], OPS[o], TYPES[b], dv), 'E2_expr.cpp', 'harness_binop', EXPR_ENTRIES, [o, a, b, dv],
                  "eval(a %s b), a:%s symbolic over the full range, b:%s = entry %d of {0,1,-1,2,7,MIN,MAX}: zero divisor is a located Runtime "
                  'error, otherwise the documented result; no trap' % (OPS[o], TYPES[a], TYPES[b], dv), tier)
    return eq('%s: %s %s %s' % (prop, TYPES[a], OPS[o], TYPES[b]), 'E2_expr.cpp', 'harness_binop', EXPR_ENTRIES, [o, a, b, 0],
              "eval(a %s b) with a:%s, b:%s of symbolic value (full range): result type and value against the documented rule, or a located "
              'Runtime error; no trap' % (OPS[o], TYPES[a], TYPES[b]), tier)


def binop_queries(tier, prop):
    if tier == 'quick':
        return [one(prop, o, a, b, dv, tier) for o, a, b, dv in QUICK]
    qs = []
    for o in range(16):
        for a in range(5):
            for b in range(5):
                if o in (3, 4):
                    qs += [one(prop, o, a, b, dv, tier) for dv in range(1, 8)]
                else:
                    qs.append(one(prop, o, a, b, 0, tier))
    return qs


def queries(tier):
    return binop_queries(tier, 'binop')


META = dict(
    level_text='bounded symbolic execution of RuntimeEvaluator::eval (real lookup, Value copies, BinaryExpression evaluation) on one binary '
               'node over two variables whose values are symbolic over the full 32/64-bit range; oracle written from docs/language/language-guide.md',
    assumptions=['operator and operand TYPES are enumerated per query, VALUES are symbolic', 'float arithmetic results are arbitrary (havoc): only '
                 'type tags, zero-divisor detection and comparisons (exact) are checked for float operands',
                 'results outside the representable range are not compared (the documentation fixes nothing there)'],
    bounds={'node': 'one BinaryExpression over VariableExpressions', 'types': 'int,long,bit,boolean,float'},
    outside=['statements, control flow, calls, casts, strings/chars/arrays, echo text: not encoded', 'whole programs'],
)


def run(tier):
    return vcheck.run_check('C07', tier, queries(tier), META)
