"""C06: a measured qubit is unusable until reset (simulator-level flag state machine; evaluator access paths added when E2 exists)."""
import vcheck
from vcheck import Query
from C05 import KINDS, ENTRIES


def q_(name, params, desc, tier):
    return Query(name, harness='C05_log.cpp', entry='harness_flags', params=params, mode='sat', fp='uf', defines=['-DIR2C_FP_HAVOC'],
                 checks='full', unwind=60, witness=True, timeout=300 if tier == 'quick' else 900, all_entries=ENTRIES, desc=desc)


def queries(tier):
    qs = []
    for n in ([2] if tier == 'quick' else [1, 2, 3]):
        for k, kn in enumerate(KINDS):
            if kn == 'cx':
                for c in range(n):
                    for t in range(n):
                        if c != t:
                            qs.append(q_('flags:cx n=%d c=%d t=%d' % (n, c, t), [n, k, c, t],
                                         'cx(%d,%d), all %d measured flags symbolic: refused iff control or target is measured' % (c, t, n), tier))
            else:
                for q in range(n):
                    qs.append(q_('flags:%s n=%d q=%d' % (kn, n, q), [n, k, q, 0],
                                 '%s(%d), all %d measured flags symbolic: refusal rule, state/log/draws untouched on refusal, flag updates' % (kn, q, n), tier))
    import E2_common
    qs += E2_common.book_active_queries(tier)
    qs += E2_common.measure_stmt_queries(tier)
    return qs


META = dict(
    level_text='one operation from an arbitrary assignment of measured flags (symbolic bits) and an arbitrary state: refused exactly when an '
               'operand is marked, refusal leaves state/log/RNG untouched, measure marks, reset clears, other flags unchanged',
    assumptions=['FP results arbitrary (havoc); operator new never fails and returns zeroed memory',
                 'simulator level only: the evaluator keeps a second copy of the flag (checked by the evaluator queries when present)'],
    bounds={'n': '2 quick / 1..3 thorough'},
    outside=['naming the qubit through index expressions / parameters / object fields inside larger programs (the variable and qubit[] forms of the measure statement are driven through exec)', 'reset and gate statement handlers of the evaluator'],
)


def run(tier):
    return vcheck.run_check('C06', tier, queries(tier), META)
