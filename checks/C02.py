"""C02: measurement = Born rule + normalised projection (simulator)."""
import vcheck
from vcheck import Query

ENTRIES = ['harness_measure', 'harness_reset', 'harness_reset_range', 'harness_alloc', 'harness_ops_mem']


def sim_query(name, entry, params, desc, n, tier, **kw):
    words = max(256, 48 * (1 << n))
    args = dict(harness='C02_sim_state.cpp', mode='smt', fp='uf', arena=True, checks='asserts', witness=True,
                all_entries=ENTRIES, timeout=120 if tier == 'quick' else 600, unwind=max(40, (1 << n) * 2 + 8),
                defines=['-DIR2C_ARENA_WORDS=%d' % words])
    args.update(kw)
    return Query(name, entry=entry, params=params, desc=desc, **args)


def mem_query(name, params, desc, n, tier):
    return Query(name, harness='C02_sim_state.cpp', entry='harness_ops_mem', params=params, mode='sat', fp='uf', defines=['-DIR2C_FP_HAVOC'], checks='full',
                 unwind=max(40, (1 << n) * 2 + 8), witness=True, timeout=300, all_entries=ENTRIES, desc=desc)


def queries(tier):
    nmax = 3 if tier == 'quick' else 4
    qs = []
    for n in range(1, nmax + 1):
        for q in range(n):
            qs.append(sim_query('measure n=%d q=%d' % (n, q), 'harness_measure', [n, q],
                                'measure qubit %d of %d: state and the uniform draw symbolic, both outcomes' % (q, n), n, tier))
    for n in ([2, 3] if tier == 'quick' else [1, 2, 3, 4]):
        for qq in range(-2, n + 2):
            qs.append(mem_query('mem:measure n=%d q=%d' % (n, qq), [n, 0, qq + 2],
                                'measure at index %d of %d qubits: all accesses in bounds; refused iff out of range' % (qq, n), n, tier))
    return qs


META = dict(
    level_text='bounded symbolic execution of QasmSimulator::measure from an arbitrary state; outcome, collapse and flags compared with the '
               'Born-rule / normalised-projection oracle for all states and draws at once',
    assumptions=['amplitudes finite; FP arithmetic abstracted to commutative uninterpreted functions (term equality), comparisons exact',
                 'the RNG draw is one value in [0,1) supplied by the harness (std::generate_canonical specialised); its uniformity is trusted',
                 'operator new never fails'],
    bounds={'n_max_quick': 3, 'n_max_thorough': 4, 'q': 'all'},
    outside=['statistical quality of mt19937', 'the evaluator-side store of the bit (C06/C17 harnesses)', 'n > 4'],
)


def run(tier):
    return vcheck.run_check('C02', tier, queries(tier), META)
