"""shared query constructor for harnesses over the evaluator TU"""
from vcheck import Query


def eq(name, harness, entry, entries, params, desc, tier, **kw):
    args = dict(harness=harness, mode='sat', fp='uf', defines=['-DIR2C_FP_HAVOC'], checks='deref', unwind=20,
                unwindset=['strlen.0:80', 'memcmp.0:40'], witness=True, timeout=600 if tier == 'quick' else 1200,
                all_entries=entries, desc=desc, mem_gb=16, object_bits=13)
    args.update(kw)
    return Query(name, entry=entry, params=params, **args)


BOOK_ENTRIES = ['harness_book_alloc', 'harness_book_active', 'harness_measure_stmt']


def book_alloc_queries(tier):
    qs = []
    for k in ([1, 2] if tier == 'quick' else [1, 2, 3]):
        for mask in range(1 << k):
            qs.append(eq('book-alloc k=%d released=%s' % (k, format(mask, '0%db' % k)), 'E2_book.cpp', 'harness_book_alloc', BOOK_ENTRIES, [k, mask],
                         'allocateTrackedQubit after %d allocations with released set %s; measured flags and recorded outcomes symbolic: the handle is '
                         'fresh or recycled-and-reset, never a live one; flags and free list consistent' % (k, format(mask, '0%db' % k)), tier))
    return qs


def book_active_queries(tier):
    qs = []
    for k in ([2] if tier == 'quick' else [1, 2, 3]):
        for idx in range(-1, k + 1):
            qs.append(eq('book-active k=%d idx=%d' % (k, idx), 'E2_book.cpp', 'harness_book_active', BOOK_ENTRIES, [k, idx + 1],
                         "evaluator-side ensureQubitActive(%d) with symbolic measured flags and caller position: refused iff missing or measured, "
                         'Runtime error located at the (symbolic) caller position' % idx, tier))
    return qs


def measure_stmt_queries(tier):
    return [eq('measure-stmt %s' % ('qubit[]' if k else 'qubit'), 'E2_book.cpp', 'harness_measure_stmt', BOOK_ENTRIES, [k],
               'exec(MeasureStatement) on a %s whose ids differ from positions, statement position symbolic: every measured element marked in both flag '
               'stores with its outcome recorded, nothing else marked, reuse refused with a located Runtime error' % ('qubit[2]' if k else 'qubit'),
               tier, timeout=900, fp='exact', defines=[]) for k in (0, 1)]


CLASS_ENTRIES = ['harness_vtable', 'harness_class_order', 'harness_class_chain']


def cq(name, entry, params, desc, tier):
    return eq(name, 'E2_classes.cpp', entry, CLASS_ENTRIES, params, desc, tier, fp='exact', defines=[], unwind=24, timeout=900)


def vtable_queries(tier):
    return [cq('vtable overloads=%d' % k, 'harness_vtable', [k],
               'buildClassTable on a class with %d virtual overload(s) of one method name (positions symbolic): every dispatch-table entry is '
               'dereferenced and must be live storage of a method of this class (no read of freed memory)' % k, tier)
            for k in ((1, 2, 3) if tier != 'quick' else (2, 3))]


def class_order_queries(tier):
    qs = [cq('class-order %s' % ('base-first' if o == 0 else 'derived-first'), 'harness_class_order', [o],
             'buildClassTable on {A{v; virtual m()}, B extends A{w}} declared %s: base link, inherited layout [v,w] and inherited dispatch entry'
             % ('A then B' if o == 0 else 'B then A'), tier) for o in (0, 1)]
    names = ['ABC', 'ACB', 'BAC', 'BCA', 'CAB', 'CBA']
    for o in (range(6) if tier != 'quick' else (3, 5)):
        qs.append(cq('class-chain order=%s' % names[o], 'harness_class_chain', [o],
                     'buildClassTable on the chain C extends B extends A (one field each, B overrides A.m) declared in the order %s: layouts '
                     '[v],[v,w],[v,w,u] with slots 0,1,2 and m() dispatched to A, B, B' % names[o], tier))
    return qs


LITERALS = ['int 0', 'int 7', 'int 2147483647', 'int 2147483648', 'int 4294967296', 'int 99999999999', 'long 2147483648L', 'long 9223372036854775807L', 'bit 0', 'bit 1']


def literal_queries(tier):
    return [eq('literal %s' % n, 'E2_literal.cpp', 'harness_literal', ['harness_literal'], [i],
               'eval(LiteralExpression %s), node position symbolic: a value of the literal\'s type, or a located Runtime error when the text does not fit; '
               'no other exception leaves eval' % n, tier, fp='exact', defines=[], timeout=900)
            for i, n in enumerate(LITERALS)]
