"""C13: the front end is total (lexer step totality; parser totality when the parser encoding exists)."""
import vcheck
from vcheck import Query
import C15


def queries(tier):
    qs = []
    firsts = C15.REPR if tier == 'quick' else list(range(256))
    lens = [3] if tier == 'quick' else [1, 2, 3, 4, 5]
    multi = [ord(c) for c in 'a0=!+&|-/><"\'']
    for L in lens + ([1, 2] if tier == 'quick' else []):
        for b in (firsts if L in lens else multi):
            if b in (9, 10, 11, 12, 13, 32):
                continue
            qs.append(C15.lex_query('lex-step first=0x%02x L=%d' % (b, L), 'harness_lex_step', [L, 0, b],
                                    'scanToken on first byte 0x%02x + %d symbolic bytes: terminates inside the unwinding bound, every read inside the '
                                    'source, result is a token or exactly one Lexical diagnostic with a 1-based position' % (b, L - 1), tier))
    for L in ([6] if tier == 'quick' else [6, 7, 8, 9]):
        qs.append(C15.lex_query('lex-skip L=%d' % L, 'harness_lex_skip', [L, 0], 'skipWhitespace over all 256^%d sources terminates in bounds' % L,
                                tier, unwind=L + 4))
    qs.append(C15.lex_query('lex-empty', 'harness_lex_empty', [0, 0], 'tokenize("") = one Eof', tier))
    try:
        import C13_parser
        qs += C13_parser.queries(tier)
    except ImportError:
        pass
    return qs


META = dict(
    level_text='bounded symbolic execution of the lexer steps with CBMC\'s pointer/bounds checks and unwinding assertions: from any state, on any '
               'bytes, scanToken/skipWhitespace terminate, read only inside the source (an exactly-sized heap buffer) and either return or raise '
               'exactly one Lexical BlochError with a 1-based position; no other exception type can escape (the harness only catches BlochError)',
    assumptions=['first byte of the window concrete per query; std::_Hash_bytes constant; C-locale <cctype>; heap zero-initialised; new never fails',
                 'error message formatting (ostringstream) replaced by an empty string'],
    bounds={'window': '3 quick / 1..5 thorough', 'skip window': '6 quick / 6..9 thorough'},
    outside=['import loading and semantic analysis on arbitrary input', 'nesting depth / length beyond the bounds'],
)


def run(tier):
    return vcheck.run_check('C13', tier, queries(tier), META)
