"""C03: the state stays a 2^n vector across allocate/gate/measure/reset; handles stay distinct (bookkeeping step)."""
import vcheck
from vcheck import Query
from C02 import sim_query, ENTRIES


def queries(tier):
    nmax = 3 if tier == 'quick' else 4
    qs = []
    for n in range(0, nmax + 1):
        qs.append(sim_query('alloc n=%d' % n, 'harness_alloc', [n, 0],
                            'allocateQubit from an arbitrary %d-qubit state with arbitrary measured flags: low half kept bit-for-bit, '
                            'high half zero, index = n' % n, n + 1, tier))
    # length preservation + in-bounds access for measure / reset / gate at every index incl. out-of-range (refused)
    for n in ([1, 2] if tier == 'quick' else [1, 2, 3]):
        for op, opname in enumerate(['measure', 'reset', 'x']):
            for qq in range(-1, n + 1):
                qs.append(Query('len:%s n=%d q=%d' % (opname, n, qq), harness='C02_sim_state.cpp', entry='harness_ops_mem',
                                params=[n, op, qq + 2], mode='sat', fp='uf', defines=['-DIR2C_FP_HAVOC'], checks='full',
                                unwind=max(40, (1 << n) * 2 + 8), witness=True, timeout=300, all_entries=ENTRIES,
                                desc='%s at index %d of %d qubits keeps 2^n amplitudes and never touches memory outside them' % (opname, qq, n)))
    import E2_common
    qs += E2_common.book_alloc_queries(tier)
    return qs


META = dict(
    level_text='one operation from an arbitrary state (inductive step): allocateQubit doubles the vector keeping the old amplitudes; '
               'measure/reset/gates keep the length and stay in bounds; unit norm is not decided here (follows from C01/C02/C04 on paper)',
    assumptions=['FP abstracted (uninterpreted / havoc for the memory queries); operator new never fails',
                 'evaluator-side handle bookkeeping (free list, index reuse after object destruction) is one step from enumerated released sets with symbolic flags'],
    bounds={'n_max_quick': 3, 'n_max_thorough': 4},
    outside=['unit norm within tolerance (rounding)', 'P(outcome) ~ 1e-16 corner of measure/reset (zero vector), see DESIGN.md',
             'program-level aliasing of qubit values'],
)


def run(tier):
    return vcheck.run_check('C03', tier, queries(tier), META)
