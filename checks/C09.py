"""C09: scoping is lexical (method body vs caller's locals)."""
import vcheck
from E2_common import eq

ENTRIES = ['harness_scope_method']


def queries(tier):
    qs = []
    for collide in (0, 1):
        for write in (0, 1):
            qs.append(eq('method %s caller-local=%s' % ('write' if write else 'read', 'v' if collide else 'w'), 'E2_scope.cpp', 'harness_scope_method',
                         ENTRIES, [collide, write],
                         "callMethod on a body that %s bare name v while the caller owns a local named '%s'; field and local values symbolic: "
                         'the field is used, the caller\'s local is untouched' % ('assigns' if write else 'returns', 'v' if collide else 'w'), tier,
                         timeout=900))
    return qs


META = dict(
    level_text='bounded symbolic execution of the real callMethod/exec/eval/lookup/assign on a hand-built method body: the result must not depend '
               'on how the caller named its locals (renaming the caller\'s local from w to v must not change anything)',
    assumptions=['one caller scope, one field, values symbolic; names enumerated (colliding / not colliding)'],
    bounds={'frames': 'caller + one method call'},
    outside=['functions calling functions (the analyser rejects undeclared names there)', 'constructors, destructors, field initialisers, statics',
             'renaming inside larger programs'],
)


def run(tier):
    return vcheck.run_check('C09', tier, queries(tier), META)
