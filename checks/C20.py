"""C20: self-update decisions (pure helpers of update_manager.cpp)."""
import vcheck
from vcheck import Query

ENTRIES = ['harness_parse', 'harness_compare', 'harness_decide', 'harness_window']
NV = 29


def uq(name, entry, params, desc, tier, **kw):
    args = dict(harness='C20_update.cpp', mode='sat', fp='exact', checks='full', unwind=40, witness=True, timeout=300, native_defs=['-lssl', '-lcrypto'],
                all_entries=ENTRIES, global_init=True, desc=desc, unwindset=['strlen.0:40', 'memcmp.0:40'])
    args.update(kw)
    return Query(name, entry=entry, params=params, **args)


def queries(tier):
    qs = [uq('compare', 'harness_compare', [], 'compareSemVer/changeLabel over three fully symbolic (major,minor,patch) triples: sign, '
             'antisymmetry, transitivity, numeric order, label', tier),
          uq('window calls=1', 'harness_window', [1], 'one maybePrintNotice call, stored and current clock symbolic (64-bit ticks): shown iff 72 h passed', tier),
          uq('window calls=2', 'harness_window', [2], 'two consecutive calls with symbolic non-decreasing clocks: notices at least 72 h apart, none withheld', tier)]
    if tier != 'quick':
        qs.append(uq('window calls=3', 'harness_window', [3], 'three consecutive calls with symbolic clocks', tier, timeout=1200))
    for k in range(NV):
        qs.append(uq('parse v=%d' % k, 'harness_parse', [k], 'parseSemVer on version string #%d: never raises; agrees with the reference' % k, tier))
    pairs = [(c, l) for c in range(NV) for l in range(NV)] if tier != 'quick' else \
            [(c, l) for c in (0, 1, 6, 8, 12, 16, 18, 23) for l in (0, 2, 4, 5, 9, 10, 14, 16, 18, 21)]
    for c, l in pairs:
        qs.append(uq('decide cur=%d lat=%d' % (c, l), 'harness_decide', [c, l],
                     'hasLatest + maybePrintNotice for versions #%d/#%d with symbolic clocks: already-latest rule, notice rule, window update' % (c, l), tier))
    return qs


META = dict(
    level_text='bounded symbolic execution of the real helper functions: version triples and clocks symbolic; version STRINGS enumerated from a fixed '
               'list of 29 shapes (a symbolic byte inside a std::string scanned with find/erase/substr/stoi gives no verdict)',
    assumptions=['std::cout is a sink; strtol is an exact model with ERANGE; std::stoi/__stoa is the real libstdc++ code',
                 'the clock is whatever the caller passes (symbolic seconds, non-decreasing across calls)'],
    bounds={'version strings': '29 enumerated shapes', 'clock': 'seconds < 1e8, gaps < 1e6 s'},
    outside=['performSelfUpdate call site (network code) incl. the gate on an unparsable release tag', 'parseChecksum (istringstream/getline: no model)',
             'shouldSkipChecks (getenv)', 'cache file I/O, HTTP, SHA-256, archive extraction', 'arbitrary version strings beyond the 29 shapes'],
)


def run(tier):
    return vcheck.run_check('C20', tier, queries(tier), META)
