"""C04: reset is local (measure-then-X channel), target to |0>."""
import vcheck
from vcheck import Query
from C02 import sim_query, mem_query, ENTRIES


def queries(tier):
    nmax = 3 if tier == 'quick' else 4
    qs = []
    for n in range(1, nmax + 1):
        for q in range(n):
            qs.append(sim_query('reset n=%d q=%d' % (n, q), 'harness_reset', [n, q],
                                'reset qubit %d of %d from an arbitrary (entangled, unmeasured) state; draw symbolic' % (q, n), n, tier))
        for k in range(6):
            qs.append(sim_query('reset-range n=%d k=%d' % (n, k), 'harness_reset_range', [n, k],
                                'reset with out-of-range index #%d of {-1, INT_MIN, n, n+1, 64, INT_MAX} is refused, state untouched' % k,
                                n, tier, mode='sat', defines=['-DIR2C_FP_HAVOC'], arena=False, timeout=300, checks='full'))
    for n in ([2] if tier == 'quick' else [2, 3]):
        for qq in range(-1, n + 1):
            qs.append(Query('mem:reset n=%d q=%d' % (n, qq), harness='C02_sim_state.cpp', entry='harness_ops_mem', params=[n, 1, qq + 2],
                            mode='sat', fp='uf', defines=['-DIR2C_FP_HAVOC'], checks='full', unwind=max(40, (1 << n) * 2 + 8),
                            witness=True, timeout=300, all_entries=ENTRIES,
                            desc='reset at index %d of %d: accesses in bounds; refused iff out of range' % (qq, n)))
    return qs


META = dict(
    level_text='bounded symbolic execution of QasmSimulator::reset from an arbitrary state: the post-state must be the normalised projection '
               'on a *sampled* outcome moved to target=0 (the only channel that leaves the other qubits\' reduced state unchanged)',
    assumptions=['FP arithmetic abstracted to commutative uninterpreted functions; comparisons exact; finite amplitudes',
                 'locality of the reduced state follows on paper from "post-state = measure-then-X-if-1"; the check decides the latter',
                 'the RNG draw is one harness-supplied value in [0,1)'],
    bounds={'n_max_quick': 3, 'n_max_thorough': 4},
    outside=['reset reached through destroyObject / allocateTrackedQubit (evaluator paths call this same function; see C03/C06)'],
)


def run(tier):
    return vcheck.run_check('C04', tier, queries(tier), META)
