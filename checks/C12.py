"""C12: running an accepted program never crashes the interpreter (enumerated crash mechanisms on the expression kernel)."""
import vcheck
from E2_common import eq, vtable_queries, literal_queries
import C07


def queries(tier):
    if tier == 'quick':
        cases = [(3, 0, 0, 1), (3, 1, 1, 3), (4, 0, 0, 1), (4, 0, 0, 3), (4, 1, 1, 1), (4, 1, 1, 3), (4, 1, 1, 6), (4, 0, 1, 3), (2, 1, 1, 0), (0, 0, 0, 0)]
        return [C07.one('trap', o, a, b, dv, tier) for o, a, b, dv in cases] + vtable_queries(tier) + literal_queries(tier)
    qs = C07.binop_queries(tier, 'trap')
    return qs + vtable_queries(tier) + literal_queries(tier)


META = dict(
    level_text='CBMC\'s built-in checks (division by zero, MIN/-1 on sdiv/srem, invalid/freed/out-of-bounds dereference) plus "only BlochError may escape" '
               'over the real eval() of one binary expression with full-range symbolic operands, and over the real buildClassTable for a class with '
               'several virtual overloads of one name (every dispatch entry dereferenced), and over eval() of one literal for enumerated boundary texts',
    assumptions=['signed overflow of + - * wraps on x86-64 and is not a crash (not checked); float->int conversions not reached by this kernel',
                 'operator/types/divisor enumerated, dividend and other operands symbolic'],
    bounds={'kernel': 'one BinaryExpression', 'divisors': '{0,1,-1,2,7,MIN,MAX}', 'virtual overloads of one name': '1..3', 'literal texts': 10},
    outside=['float literal conversion (stof); literals in the analyser and the parser (array sizes)', 'dispatch tables of generic instantiations (instantiateGeneric) and of overloads with class-typed parameters', 'teardown after an error',
             'indices, null references, deep hierarchies: not encoded', 'whole programs'],
)


def run(tier):
    return vcheck.run_check('C12', tier, queries(tier), META)
