"""C16: static rules are enforced in every syntactic position (rule kernels on hand-built programs)."""
import vcheck
from E2_common import eq

ENTRIES = ['harness_undeclared', 'harness_final', 'harness_types', 'harness_order', 'harness_class_order_an', 'harness_reftypes']
POS = ['initialiser', 'assignment value', 'echo argument', 'if condition']


def aq(name, entry, params, desc, tier):
    return eq(name, 'E3_analyse.cpp', entry, ENTRIES, params, desc, tier, fp='exact', defines=[], unwind=24, global_init=True, timeout=900,
              harness_defs=['-fno-pie'])   # no PIC: keeps clang from emitting relative lookup tables (llvm.load.relative)


def queries(tier):
    qs = []
    for p, pn in enumerate(POS):
        for d in (0, 1):
            qs.append(aq('undeclared pos=%d declared=%d' % (p, d), 'harness_undeclared', [p, d],
                         'function main with a name y used as %s, y %s: %s; node positions symbolic' %
                         (pn, 'declared before' if d else 'never declared', 'accepted' if d else 'Semantic error'), tier))
    for w in range(3):
        for f in (0, 1):
            qs.append(aq('final write=%d final=%d' % (w, f), 'harness_final', [w, f],
                         'a local x %s written by %s: %s' % ('declared final' if f else 'not final', ['x = 2;', 'x++;', '(x = 2);'][w],
                                                             'Semantic error' if f else 'accepted'), tier))
    types = ['int', 'long', 'float', 'bit', 'boolean', 'string', 'char']
    pairs = [(a, b) for a in range(7) for b in range(7)]
    for a, b in pairs:
        qs.append(aq('types %s <- %s' % (types[a], types[b]), 'harness_types', [a, b],
                     '%s x = <%s literal>: accepted exactly when the types agree or int widens to long' % (types[a], types[b]), tier))
    tn = ['int', 'Foo', 'Sub']
    vn = ['<int literal>', 'new Foo()', 'new Bar()', 'new Sub()', 'null']
    for pos in (0, 1):
        for dt in range(3):
            for vt in range(5):
                ok = vt == 0 if dt == 0 else (vt in (1, 3, 4) if dt == 1 else vt in (3, 4))
                qs.append(aq('reftypes %s %s <- %s' % ('init' if pos == 0 else 'assign', tn[dt], vn[vt]), 'harness_reftypes', [dt, vt, pos],
                             'classes Foo, Bar, Sub extends Foo; %s of a %s variable with %s: %s' %
                             ('initialiser' if pos == 0 else 'assignment', tn[dt], vn[vt], 'accepted' if ok else 'Semantic error'), tier))
    return qs


META = dict(
    level_text='bounded symbolic execution of the real SemanticAnalyser::analyse (visitor dispatch, symbol tables, type inference) on small hand-built '
               'programs: the offending construct in each enumerated position is a Semantic error, the twin without it is accepted',
    assumptions=['programs are enumerated (rule instance x position), node positions symbolic; heap and stack zero-initialised; hash = constant'],
    bounds={'rules': 'use before declaration (4 positions), final local written (3 node kinds), primitive initialiser compatibility (7x7 types), reference-type compatibility (3 declared types x 5 values x initialiser/assignment)'},
    outside=['every other rule of the list (visibility, void results, static/abstract instantiation, this/super in static context, @quantum/@shots, null, '
             'final fields in constructors) and the product with arbitrary surrounding programs', 'argument and return positions for reference types, methods, arrays, generics'],
)


def run(tier):
    return vcheck.run_check('C16', tier, queries(tier), META)
