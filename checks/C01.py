"""C01: gates are their unitaries on the addressed qubits."""
import vcheck
from vcheck import Query

GATES = ['h', 'x', 'y', 'z', 'rx', 'ry', 'rz']


def queries(tier):
    nmax = 3 if tier == 'quick' else 5
    qs = []
    common = dict(harness='C01_gates.cpp', mode='smt', fp='uf', arena=True, checks='asserts', witness=True,
                  all_entries=['harness_gate1', 'harness_cx'], timeout=120 if tier == 'quick' else 600)
    for n in range(1, nmax + 1):
        words = max(256, 40 * (1 << n))
        unwind = max(40, (1 << n) * 2 + 6)
        for q in range(n):
            for g, gname in enumerate(GATES):
                qs.append(Query('gate:%s n=%d q=%d' % (gname, n, q), entry='harness_gate1', params=[n, q, 0, g],
                                unwind=unwind, defines=['-DIR2C_ARENA_WORDS=%d' % words],
                                desc='%s on qubit %d of %d: all 2^%d amplitudes and the angle symbolic' % (gname, q, n, n), **common))
        if n == 1:
            qs.append(Query('gate:rz(cos,sin) n=1 q=0', entry='harness_gate1', params=[1, 0, 0, 7], unwind=unwind,
                            defines=['-DIR2C_ARENA_WORDS=%d' % words],
                            desc='rz against diag(cos-i sin, cos+i sin) spelled out, independent of cexp', **common))
        for c in range(n):
            for t in range(n):
                if c != t:
                    qs.append(Query('cx n=%d c=%d t=%d' % (n, c, t), entry='harness_cx', params=[n, c, t, 0],
                                    unwind=unwind, defines=['-DIR2C_ARENA_WORDS=%d' % words],
                                    desc='cx control %d target %d of %d qubits' % (c, t, n), **common))
    # memory safety of the same kernels: exact mode, all of CBMC's pointer/bounds checks, values irrelevant
    for n in ([2, 3] if tier == 'quick' else [2, 3, 4]):
        for g, gname in enumerate(GATES):
            qs.append(Query('mem:%s n=%d q=%d' % (gname, n, n - 1), harness='C01_gates.cpp', entry='harness_gate1_mem', params=[n, n - 1, 0, g],
                            mode='sat', fp='exact', checks='full', unwind=(1 << n) * 2 + 6, witness=True, timeout=300,
                            all_entries=['harness_gate1_mem', 'harness_cx_mem'],
                            desc='%s: every access of the kernel stays inside the state vector' % gname))
        qs.append(Query('mem:cx n=%d' % n, harness='C01_gates.cpp', entry='harness_cx_mem', params=[n, 0, n - 1, 0],
                        mode='sat', fp='exact', checks='full', unwind=(1 << n) * 2 + 6, witness=True, timeout=300,
                        all_entries=['harness_gate1_mem', 'harness_cx_mem'], desc='cx: accesses in bounds'))
    return qs


META = dict(
    level_text='bounded symbolic execution (CBMC over ir2c-translated clang IR of qasm_simulator.cpp); amplitude arithmetic '
               'abstracted to sign-separated commutative uninterpreted functions and decided by an SMT portfolio',
    assumptions=['amplitudes and angles are finite doubles; -0.0 and +0.0 are identified',
                 'floating-point +,*,/ are abstracted: equal terms imply equal doubles, rounding error is outside the claim',
                 'cos/sin/sqrt are uninterpreted with cos(-x)=cos(x), sin(-x)=-sin(x); cexp(0,y)=(cos y, sin y)',
                 'operator new never fails; error-message formatting is replaced by an empty string'],
    bounds={'n_max_quick': 3, 'n_max_thorough': 5, 'qubit_positions': 'all', 'cx_pairs': 'all ordered pairs'},
    outside=['rounding error', 'n > 5', 'NaN/Inf amplitudes', "the evaluator's name->method dispatch (see C06)"],
)


def run(tier):
    return vcheck.run_check('C01', tier, queries(tier), META)
