"""C15: lexer lossless + exact positions (inductive step over scanToken / skipWhitespace)."""
import vcheck
from vcheck import Query

ENTRIES = ['harness_lex_step', 'harness_lex_skip', 'harness_lex_empty']
# one first byte per dispatch class of scanToken (letters incl. the suffix letters, digits, every operator/punctuation
# character, quotes, and bytes that fall to the Unknown default)
REPR = [ord(c) for c in 'aZ_fbL07=!+&|^~-*/%><?:.;,@"\'(){}[]#$`\\'] + [0, 1, 127, 128, 255]


def lex_query(name, entry, params, desc, tier, unwind=50):
    return Query(name, harness='C15_lexer.cpp', entry=entry, params=params, mode='sat', fp='exact', checks='full', unwind=unwind,
                 unwindset=['memcmp.0:80', 'strlen.0:80'], witness=True, timeout=300 if tier == 'quick' else 1200,
                 all_entries=ENTRIES, desc=desc, mem_gb=12)


def step_queries(tier):
    qs = []
    firsts = REPR if tier == 'quick' else list(range(256))
    lens = [1, 2, 4] if tier == 'quick' else [1, 2, 3, 4, 5, 6]
    multi = set(ord(c) for c in 'a_0=!+&|-/><"\'')   # first bytes whose token can extend past one byte
    for L in lens:
        for b in firsts:
            if b in (9, 10, 11, 12, 13, 32):
                continue  # trivia bytes never start a token (covered by the skip queries)
            if tier == 'quick' and L < 4 and b not in multi:
                continue  # single-byte tokens: the L=4 window already covers them; short windows matter for multi-byte scans
            qs.append(lex_query('step first=0x%02x L=%d' % (b, L), 'harness_lex_step', [L, 0, b],
                                'scanToken from an arbitrary (line,column): first byte 0x%02x, the other %d bytes range over all 256 values' % (b, L - 1), tier))
    return qs


def skip_queries(tier):
    qs = []
    for L in (range(0, 6) if tier == 'quick' else range(0, 9)):
        qs.append(lex_query('skip L=%d' % L, 'harness_lex_skip', [L, 0],
                            'skipWhitespace from an arbitrary (line,column) over all 256^%d sources' % L, tier, unwind=L + 4))
    qs.append(lex_query('empty', 'harness_lex_empty', [0, 0], 'tokenize("") is a single Eof at (1,1)', tier))
    return qs


def queries(tier):
    return step_queries(tier) + skip_queries(tier)


META = dict(
    level_text='inductive step: from ANY lexer state (symbolic line/column) one scanToken() yields a token whose text is the source bytes at the '
               'cursor, whose (line,column) is the state before the call, and leaves counters that describe the next byte; skipWhitespace() '
               'likewise skips exactly whitespace and // comments. By induction over tokenize()\'s loop every token of every source is exact.',
    assumptions=['the first byte of the window is concrete per query (all 256 values in thorough, one per dispatch class in quick); the other '
                 'bytes are symbolic over all 256 values',
                 'tokenize()\'s own loop (skip; scan; push_back; final Eof) is tied in on paper plus the empty-source query; a fully symbolic '
                 'tokenize() run did not finish in 600 s at length 1',
                 'std::_Hash_bytes is modelled by a constant (one bucket chain); <cctype> is the C locale; heap zero-initialised; new never fails'],
    bounds={'window_quick': [1, 2, 4], 'window_thorough': [1, 2, 3, 4, 5, 6], 'line,column': '1..999999'},
    outside=['tokens longer than the window (identifiers/strings/numbers > 6 bytes): the scanning loops have no state beyond position/line/column'],
)


def run(tier):
    return vcheck.run_check('C15', tier, queries(tier), META)
