"""C08: object model kernels - virtual dispatch / overload selection / super on a class table built by the real buildClassTable,
and base-first construction order through the real runConstructorChain."""
import vcheck
from E2_common import eq

ENTRIES = ['harness_vtable', 'harness_class_order', 'harness_class_chain', 'harness_dispatch', 'harness_construct']
NAMES = 'ABC'
CALLS = ['o.m()', 'o.m(<int>)', 'o.n()', 'o.p(<int>)', 'o.q()', 'o.r()', 'o.t()']


def oq(name, entry, params, desc, tier, timeout=900):
    return eq(name, 'E2_classes.cpp', entry, ENTRIES, params, desc, tier, fp='exact', defines=[], unwind=24, timeout=timeout)


def expected(dyn, call):
    return {0: 10 if dyn == 0 else 20, 1: 31 if dyn == 2 else 11, 2: 10, 3: 40, 4: 50, 5: 'the (symbolic) value of field v', 6: 10 if dyn == 0 else 20}[call]


def queries(tier):
    combos = [(s, d, c) for s in range(3) for d in range(s, 3) for c in range(7) if c != 2 or s >= 1]
    if tier == 'quick':
        combos = [(0, 1, 0), (0, 2, 1), (1, 2, 2), (1, 1, 3), (2, 2, 3), (0, 1, 4), (1, 2, 4), (0, 1, 5), (1, 1, 5), (0, 1, 6), (1, 2, 6)]
    qs = []
    for s, d, c in combos:
        qs.append(oq('dispatch static=%s dynamic=%s call=%s' % (NAMES[s], NAMES[d], CALLS[c]), 'harness_dispatch', [s, d, c],
                     'A{int v; virtual m()=10; virtual m(int)=11; p(int)=40; virtual q()=50; virtual r()=this.v; t()=m()} B extends A{override m()=20; n()=super.m(); p(long)=41; '
                     'override q()=super.q(); override r()=super.r()} C extends B{override m(int)=31}; a variable of static '
                     'class %s holding a %s object, %s evaluated by the real eval(): result must be %s (field value, argument value and node positions symbolic)'
                     % (NAMES[s], NAMES[d], CALLS[c], expected(d, c)), tier))
    for imp in ((0, 1) if tier != 'quick' else (0,)):
        qs.append(oq('construct %s' % ('implicit-super' if imp else 'explicit-super'), 'harness_construct', [imp],
                     'A{int t=1; constructor(){t=t*10+2;}} B extends A{int w=t*10+3; constructor(int k){%st=w*10+k;}}: runConstructorChain(B, k) must leave '
                     'w==123 and t==1230+k for every |k|<1000, i.e. base initialisers, base body, own initialisers, own body' % ('' if imp else 'super(); '),
                     tier, timeout=1500))
    return qs


META = dict(
    level_text='bounded symbolic execution of the real buildClassTable + eval(CallExpression on a member) + findMethod + callMethod, and of the real '
               'runConstructorChain + runFieldInitialisers + exec/eval, on one hand-built three-class hierarchy: dispatch result for every '
               '(static class, dynamic class, call) combination and the construction order equal the documented rules',
    assumptions=['one hierarchy (A <- B <- C, two overloads of m, one super call); static/dynamic class and call enumerated, the int argument, '
                 'the constructor argument (|k|<1000, keeps int arithmetic inside the range) and node positions symbolic',
                 'runtimeSignatureLabel modelled (name + one letter per parameter kind)', 'classes are hand-built past the parser and the analyser; '
                 'objects are built directly (no heap registration, no destructor run)'],
    bounds={'hierarchy depth': 3, 'overloads of one name': 2, 'calls': 'm(), m(int), n() -> super.m(), p(int|long), q() -> super.q(), r() -> super.r() -> this.v, t() -> unqualified m()', 'constructor chain': 'A <- B'},
    outside=['overload choice made by the analyser from static argument types (only the runtime choice is exercised)', 'reference-typed overload parameters',
             'static fields, generics/specialisations, destructors and their order, destroy statements', 'printed output of whole programs',
             'hierarchies, overriding patterns and call sequences other than the enumerated ones'],
)


def run(tier):
    return vcheck.run_check('C08', tier, queries(tier), META)
