// C09: scoping is lexical - a method body's bare name resolves to its own locals/parameters, then the receiver's fields,
// never to a local of whichever function is calling it.  Real callMethod -> exec -> eval -> lookup / assign.
// P0: name of the caller's local (0 = "w", unrelated; 1 = "v", same as the field), P1: 0 = read (return v;), 1 = write (v = 7;)
#include "eval_common.h"

extern "C" void harness_scope_method() {
    const bool collide = verif_param(0) == 1;
    const bool write = verif_param(1) == 1;
    RuntimeEvaluator ev(false);
    // class A { int v; }
    RuntimeClass cls;
    cls.name = "A";
    RuntimeField f;
    f.name = "v";
    f.type.kind = Value::Type::Int;
    f.offset = 0;
    cls.instanceFields.push_back(f);
    cls.instanceFieldIndex["v"] = 0;
    auto obj = std::make_shared<Object>();
    obj->cls = &cls;
    obj->skipDestructor = true;
    Value fieldVal;
    fieldVal.type = Value::Type::Int;
    fieldVal.intValue = verif_nd_int();
    obj->fields.push_back(fieldVal);
    // the caller: one scope with one local
    ev.beginScope();
    Value callerVal;
    callerVal.type = Value::Type::Int;
    callerVal.intValue = verif_nd_int();
    ev.m_env.back()[collide ? "v" : "w"] = {callerVal, false, true};
    // method body
    MethodDeclaration decl;
    decl.name = "m";
    decl.body = std::make_unique<BlockStatement>();
    if (write) {
        auto as = std::make_unique<AssignmentStatement>();
        as->name = "v";
        as->value = std::make_unique<LiteralExpression>("7", "int");
        decl.body->statements.push_back(std::move(as));
    } else {
        auto rs = std::make_unique<ReturnStatement>();
        rs->value = std::make_unique<VariableExpression>("v");
        decl.body->statements.push_back(std::move(rs));
    }
    RuntimeMethod m;
    m.decl = &decl;
    m.owner = &cls;
    Value r = ev.callMethod(&m, &cls, obj, {});
    if (!write) {
        verif_assert(r.type == Value::Type::Int && r.intValue == fieldVal.intValue,
                     "C09: a bare name in a method body reads the receiver's field, whatever the caller's locals are called");
    } else {
        verif_assert(obj->fields[0].type == Value::Type::Int && obj->fields[0].intValue == 7,
                     "C09: a bare-name assignment in a method body writes the receiver's field");
        auto it = ev.m_env.back().find(collide ? "v" : "w");
        verif_assert(it != ev.m_env.back().end() && it->second.value.intValue == callerVal.intValue,
                     "C09: a callee never changes its caller's locals");
    }
    verif_assert(ev.m_env.size() == 1, "C09: the callee's scope is popped");
    verif_reach();
}
