// C12: literal conversion in the evaluator (std::stoi / stoll on literal text).
#include "eval_common.h"

// C12 (literal conversion): eval of one LiteralExpression whose text is one of the enumerated boundary shapes (P0); node position symbolic.
// Whatever the text, eval returns a value of the literal's type or raises a located Runtime BlochError - never another exception.
extern "C" void harness_literal() {
    static const struct { const char* text; const char* type; long long value; bool fits; } kLit[] = {
        {"0", "int", 0, true}, {"7", "int", 7, true}, {"2147483647", "int", 2147483647LL, true},
        {"2147483648", "int", 0, false}, {"4294967296", "int", 0, false}, {"99999999999", "int", 0, false},
        {"2147483648L", "long", 2147483648LL, true}, {"9223372036854775807L", "long", INT64_MAX, true},
        {"0", "bit", 0, true}, {"1", "bit", 1, true},
    };
    const auto& l = kLit[verif_param(0)];
    RuntimeEvaluator ev(false);
    LiteralExpression lit(l.text, l.type);
    lit.line = verif_nd_int(); lit.column = verif_nd_int();
    bool raised = false;
    Value r;
    try {
        r = ev.eval(&lit);
    } catch (const BlochError& e) {
        raised = true;
        verif_assert(e.category == ErrorCategory::Runtime && e.line == lit.line && e.column == lit.column,
                     "C12: a literal that cannot be represented is a Runtime error located at the literal");
    }
    if (l.fits) {
        verif_assert(!raised, "C12: a representable literal evaluates");
        if (!raised) {
            long long got = r.type == Value::Type::Int ? r.intValue : r.type == Value::Type::Long ? r.longValue : r.bitValue;
            verif_assert(got == l.value, "C12: a literal evaluates to its value");
        }
    } else {
        verif_assert(raised, "C12: an out-of-range int literal is refused with a diagnostic, not wrapped or truncated");
    }
    verif_reach();
}
