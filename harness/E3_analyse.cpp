// C16: static rules are enforced in every syntactic position.  SemanticAnalyser::analyse on hand-built programs.
// The programs are enumerated (P0 = rule instance, P1 = syntactic position); node positions are symbolic.
#include <algorithm>
#include <cstring>
#include <functional>
#include <iostream>
#include <memory>
#include <optional>
#include <sstream>
#include <stdexcept>
#include <string>
#include <unordered_map>
#include <unordered_set>
#include <vector>
#include "verif.h"
#define private public
#include VERIF_TYPESYS_CPP
#include VERIF_BUILTINS_CPP
#include VERIF_ANALYSER_CPP
#undef private
using namespace bloch::compiler;
using bloch::support::BlochError;
using bloch::support::ErrorCategory;

static std::unique_ptr<Type> prim(const char* n) { return std::make_unique<PrimitiveType>(n); }
static std::unique_ptr<Expression> var(const char* n) {
    auto e = std::make_unique<VariableExpression>(n);
    e->line = verif_nd_int(); e->column = verif_nd_int();
    return e;
}
static std::unique_ptr<Expression> lit(const char* v, const char* t) { return std::make_unique<LiteralExpression>(v, t); }
static std::unique_ptr<VariableDeclaration> decl(const char* ty, const char* name, std::unique_ptr<Expression> init, bool isFinal = false) {
    auto d = std::make_unique<VariableDeclaration>();
    d->name = name; d->varType = prim(ty); d->initializer = std::move(init); d->isFinal = isFinal;
    d->line = verif_nd_int(); d->column = verif_nd_int();
    return d;
}
static std::unique_ptr<FunctionDeclaration> fn_main(std::vector<std::unique_ptr<Statement>> body) {
    auto f = std::make_unique<FunctionDeclaration>();
    f->name = "main";
    f->returnType = std::make_unique<VoidType>();
    f->body = std::make_unique<BlockStatement>();
    f->body->statements = std::move(body);
    return f;
}

// returns 0 = accepted, 1 = Semantic error, 2 = other BlochError category
static int run_analyser(Program& p) {
    SemanticAnalyser a;
    try { a.analyse(p); } catch (const BlochError& e) { return e.category == ErrorCategory::Semantic ? 1 : 2; }
    return 0;
}

// (names avoid the built-in gate identifiers h,x,y,z,rx,ry,rz,cx: `int x = y;` is accepted because y IS declared - as a built-in function)
// Rule "use before declaration": an undeclared name vv used as (0) initialiser, (1) assignment value, (2) echo argument,
// (3) condition operand; twin: the same program with y declared first must be accepted.
extern "C" void harness_undeclared() {
    const int pos = verif_param(0);
    const bool declared = verif_param(1) == 1;
    std::vector<std::unique_ptr<Statement>> body;
    if (declared) body.push_back(decl("int", "vv", lit("1", "int")));
    if (pos == 0) {
        body.push_back(decl("int", "xx", var("vv")));
    } else if (pos == 1) {
        body.push_back(decl("int", "xx", lit("0", "int")));
        auto as = std::make_unique<AssignmentStatement>();
        as->name = "xx"; as->value = var("vv");
        body.push_back(std::move(as));
    } else if (pos == 2) {
        auto ec = std::make_unique<EchoStatement>();
        ec->value = var("vv");
        body.push_back(std::move(ec));
    } else {
        auto iff = std::make_unique<IfStatement>();
        iff->condition = std::make_unique<BinaryExpression>("==", var("vv"), lit("1", "int"));
        iff->thenBranch = std::make_unique<BlockStatement>();
        body.push_back(std::move(iff));
    }
    Program p;
    p.functions.push_back(fn_main(std::move(body)));
    int r = run_analyser(p);
    if (declared) verif_assert(r == 0, "C16: the program without the violation is accepted");
    else verif_assert(r == 1, "C16: a name used before any declaration is a Semantic error wherever it is written");
    (void)p.functions[0].release();
    verif_reach();
}

// Rule "final variables are never assigned or incremented after initialisation".  P0: 0 = `x = 2;` (AssignmentStatement),
// 1 = `x++;` (PostfixExpression), 2 = `(x = 2);` (AssignmentExpression).  P1: x declared final or not (twin).
extern "C" void harness_final() {
    const int how = verif_param(0);
    const bool isFinal = verif_param(1) == 1;
    std::vector<std::unique_ptr<Statement>> body;
    body.push_back(decl("int", "xx", lit("1", "int"), isFinal));
    if (how == 0) {
        auto as = std::make_unique<AssignmentStatement>();
        as->name = "xx"; as->value = lit("2", "int");
        as->line = verif_nd_int(); as->column = verif_nd_int();
        body.push_back(std::move(as));
    } else {
        auto es = std::make_unique<ExpressionStatement>();
        if (how == 1) es->expression = std::make_unique<PostfixExpression>("++", var("xx"));
        else es->expression = std::make_unique<AssignmentExpression>("xx", lit("2", "int"));
        es->expression->line = verif_nd_int(); es->expression->column = verif_nd_int();
        body.push_back(std::move(es));
    }
    Program p;
    p.functions.push_back(fn_main(std::move(body)));
    int r = run_analyser(p);
    if (isFinal) verif_assert(r == 1, "C16: writing a final local is a Semantic error whatever node performs the write");
    else verif_assert(r == 0, "C16: the same write to a non-final local is accepted");
    (void)p.functions[0].release();
    verif_reach();
}

// Rule "an initialiser is accepted only if it has the declared type or is an int widening to long" on primitive literals.
extern "C" void harness_types() {
    static const char* const kT[7] = {"int", "long", "float", "bit", "boolean", "string", "char"};
    static const char* const kV[7] = {"1", "1L", "1.0f", "1b", "true", "\"s\"", "'c'"};
    const int dt = verif_param(0), vt = verif_param(1);
    std::vector<std::unique_ptr<Statement>> body;
    body.push_back(decl(kT[dt], "xx", lit(kV[vt], kT[vt])));
    Program p;
    p.functions.push_back(fn_main(std::move(body)));
    int r = run_analyser(p);
    bool ok = dt == vt || (dt == 1 && vt == 0);
    verif_assert(r == (ok ? 0 : 1), "C16: a primitive initialiser is accepted exactly when it has the declared type or is an int widening to long");
    (void)p.functions[0].release();
    verif_reach();
}

// C10: acceptance does not depend on top-level declaration order.  Two functions, main calling g with k arguments.
// P0 = order (0: g first, 1: main first), P1 = number of parameters/arguments k (0..2), P2 = arity mismatch (0 = call matches, 1 = one argument too many)
static std::unique_ptr<FunctionDeclaration> fn_g(int k) {
    auto f = std::make_unique<FunctionDeclaration>();
    f->name = "gg";
    f->returnType = std::make_unique<VoidType>();
    f->body = std::make_unique<BlockStatement>();
    for (int i = 0; i < k; ++i) {
        auto p = std::make_unique<Parameter>();
        p->name = i == 0 ? "p0" : "p1";
        p->type = prim("int");
        f->params.push_back(std::move(p));
    }
    f->line = verif_nd_int(); f->column = verif_nd_int();
    return f;
}
extern "C" void harness_order() {
    const int order = verif_param(0), k = verif_param(1), extra = verif_param(2);
    std::vector<std::unique_ptr<Expression>> args;
    for (int i = 0; i < k + extra; ++i) args.push_back(lit("1", "int"));
    auto call = std::make_unique<CallExpression>(var("gg"), std::move(args));
    call->line = verif_nd_int(); call->column = verif_nd_int();
    auto es = std::make_unique<ExpressionStatement>();
    es->expression = std::move(call);
    std::vector<std::unique_ptr<Statement>> body;
    body.push_back(std::move(es));
    Program p;
    if (order == 0) { p.functions.push_back(fn_g(k)); p.functions.push_back(fn_main(std::move(body))); }
    else { p.functions.push_back(fn_main(std::move(body))); p.functions.push_back(fn_g(k)); }
    int r = run_analyser(p);
    // the expected verdict is a function of the program's content only, never of the order
    verif_assert(r == (extra ? 1 : 0), "C10: a call is accepted exactly when it matches the callee's signature, wherever the callee is declared");
    (void)p.functions[0].release();
    (void)p.functions[1].release();
    verif_reach();
}

// C10 (classes in the analyser; every class also has `public constructor() -> T = default;`): class Shape { virtual area() -> int; }  class Polygon extends Shape { }  class Square extends Polygon { [override area() -> int { return 1; }] }
// function main() -> void { Square s = new Square(); }
// P0 = permutation of the three class declarations (0..5), P1 = 1 when Square implements area()
// Square is abstract through the requirement inherited over Polygon exactly when it does not implement area(): verdict must not depend on P0.
static std::unique_ptr<MethodDeclaration> area(bool body, bool isVirtual, bool isOverride) {
    auto m = std::make_unique<MethodDeclaration>();
    m->name = "area";
    m->isVirtual = isVirtual; m->isOverride = isOverride;
    m->visibility = Visibility::Public;
    m->returnType = prim("int");
    if (body) {
        m->body = std::make_unique<BlockStatement>();
        auto rs = std::make_unique<ReturnStatement>();
        rs->value = lit("1", "int");
        m->body->statements.push_back(std::move(rs));
    }
    m->line = verif_nd_int(); m->column = verif_nd_int();
    return m;
}
extern "C" void harness_class_order_an() {
    static const int perms[6][3] = {{0, 1, 2}, {0, 2, 1}, {1, 0, 2}, {1, 2, 0}, {2, 0, 1}, {2, 1, 0}};
    const int* perm = perms[verif_param(0)];
    const bool implemented = verif_param(1) == 1;
    std::unique_ptr<ClassDeclaration> cls[3];
    for (int i = 0; i < 3; ++i) {
        cls[i] = std::make_unique<ClassDeclaration>(); cls[i]->line = verif_nd_int(); cls[i]->column = verif_nd_int();
        auto ctor = std::make_unique<ConstructorDeclaration>();    // public constructor() -> T = default;
        ctor->isDefault = true;
        ctor->visibility = Visibility::Public;
        cls[i]->members.push_back(std::move(ctor));
    }
    cls[0]->name = "Shape";
    cls[0]->members.push_back(area(false, true, false));
    cls[1]->name = "Polygon";
    cls[1]->baseName = {"Shape"};
    cls[2]->name = "Square";
    cls[2]->baseName = {"Polygon"};
    if (implemented) cls[2]->members.push_back(area(true, false, true));
    auto ne = std::make_unique<NewExpression>();
    ne->classType = std::make_unique<NamedType>(std::vector<std::string>{"Square"});
    ne->line = verif_nd_int(); ne->column = verif_nd_int();
    auto d = std::make_unique<VariableDeclaration>();
    d->name = "ss";
    d->varType = std::make_unique<NamedType>(std::vector<std::string>{"Square"});
    d->initializer = std::move(ne);
    std::vector<std::unique_ptr<Statement>> body;
    body.push_back(std::move(d));
    Program p;
    for (int i = 0; i < 3; ++i) p.classes.push_back(std::move(cls[perm[i]]));
    p.functions.push_back(fn_main(std::move(body)));
    int r = run_analyser(p);
    verif_assert(r == (implemented ? 0 : 1), "C10: instantiating Square is a Semantic error exactly when area() stays unimplemented, whatever the order of the class declarations");
    for (int i = 0; i < 3; ++i) (void)p.classes[i].release();
    (void)p.functions[0].release();
    verif_reach();
}

// C16 (reference types): classes Foo, Bar (unrelated), Sub extends Foo, each with `public constructor() -> T = default;`
// P0 = declared type (0 int, 1 Foo, 2 Sub), P1 = value (0 int literal, 1 new Foo(), 2 new Bar(), 3 new Sub(), 4 null),
// P2 = position (0: initialiser `T vv = <value>;`, 1: assignment `T vv = <neutral>; vv = <value>;`)
// accepted exactly when the value has the declared type, is an instance of a subclass of it, or is null for a class reference.
static std::unique_ptr<ClassDeclaration> plainClass(const char* name, const char* base) {
    auto c = std::make_unique<ClassDeclaration>();
    c->name = name;
    if (base) c->baseName = {base};
    auto ctor = std::make_unique<ConstructorDeclaration>();
    ctor->isDefault = true;
    ctor->visibility = Visibility::Public;
    c->members.push_back(std::move(ctor));
    c->line = verif_nd_int(); c->column = verif_nd_int();
    return c;
}
static std::unique_ptr<Expression> newOf(const char* cls) {
    auto ne = std::make_unique<NewExpression>();
    ne->classType = std::make_unique<NamedType>(std::vector<std::string>{cls});
    ne->line = verif_nd_int(); ne->column = verif_nd_int();
    return ne;
}
extern "C" void harness_reftypes() {
    const int dt = verif_param(0), vt = verif_param(1), pos = verif_param(2);
    static const char* const kCls[3] = {nullptr, "Foo", "Sub"};
    auto value = [&]() -> std::unique_ptr<Expression> {
        switch (vt) {
            case 0: return lit("1", "int");
            case 1: return newOf("Foo");
            case 2: return newOf("Bar");
            case 3: return newOf("Sub");
            default: { auto n = std::make_unique<NullLiteralExpression>(); n->line = verif_nd_int(); n->column = verif_nd_int(); return n; }
        }
    };
    auto declared = [&]() -> std::unique_ptr<Type> {
        if (dt == 0) return prim("int");
        return std::make_unique<NamedType>(std::vector<std::string>{kCls[dt]});
    };
    std::vector<std::unique_ptr<Statement>> body;
    auto d = std::make_unique<VariableDeclaration>();
    d->name = "vv";
    d->varType = declared();
    d->line = verif_nd_int(); d->column = verif_nd_int();
    if (pos == 0) {
        d->initializer = value();
        body.push_back(std::move(d));
    } else {
        d->initializer = dt == 0 ? lit("0", "int") : newOf(kCls[dt]);
        body.push_back(std::move(d));
        auto as = std::make_unique<AssignmentStatement>();
        as->name = "vv";
        as->value = value();
        as->line = verif_nd_int(); as->column = verif_nd_int();
        body.push_back(std::move(as));
    }
    Program p;
    p.classes.push_back(plainClass("Foo", nullptr));
    p.classes.push_back(plainClass("Bar", nullptr));
    p.classes.push_back(plainClass("Sub", "Foo"));
    p.functions.push_back(fn_main(std::move(body)));
    int r = run_analyser(p);
    bool ok = dt == 0 ? vt == 0 : dt == 1 ? (vt == 1 || vt == 3 || vt == 4) : (vt == 3 || vt == 4);
    verif_assert(r == (ok ? 0 : 1), "C16: a value is accepted by an initialiser or assignment exactly when it has the declared type, is an instance of a subclass, or is null for a class reference");
    for (int i = 0; i < 3; ++i) (void)p.classes[i].release();
    (void)p.functions[0].release();
    verif_reach();
}
