// C16: static rules are enforced in every syntactic position.  SemanticAnalyser::analyse on hand-built programs.
// The programs are enumerated (P0 = rule instance, P1 = syntactic position); node positions are symbolic.
#include <algorithm>
#include <cstring>
#include <functional>
#include <iostream>
#include <memory>
#include <optional>
#include <sstream>
#include <stdexcept>
#include <string>
#include <unordered_map>
#include <unordered_set>
#include <vector>
#include "verif.h"
#define private public
#include VERIF_TYPESYS_CPP
#include VERIF_BUILTINS_CPP
#include VERIF_ANALYSER_CPP
#undef private
using namespace bloch::compiler;
using bloch::support::BlochError;
using bloch::support::ErrorCategory;

static std::unique_ptr<Type> prim(const char* n) { return std::make_unique<PrimitiveType>(n); }
static std::unique_ptr<Expression> var(const char* n) {
    auto e = std::make_unique<VariableExpression>(n);
    e->line = verif_nd_int(); e->column = verif_nd_int();
    return e;
}
static std::unique_ptr<Expression> lit(const char* v, const char* t) { return std::make_unique<LiteralExpression>(v, t); }
static std::unique_ptr<VariableDeclaration> decl(const char* ty, const char* name, std::unique_ptr<Expression> init, bool isFinal = false) {
    auto d = std::make_unique<VariableDeclaration>();
    d->name = name; d->varType = prim(ty); d->initializer = std::move(init); d->isFinal = isFinal;
    d->line = verif_nd_int(); d->column = verif_nd_int();
    return d;
}
static std::unique_ptr<FunctionDeclaration> fn_main(std::vector<std::unique_ptr<Statement>> body) {
    auto f = std::make_unique<FunctionDeclaration>();
    f->name = "main";
    f->returnType = std::make_unique<VoidType>();
    f->body = std::make_unique<BlockStatement>();
    f->body->statements = std::move(body);
    return f;
}

// returns 0 = accepted, 1 = Semantic error, 2 = other BlochError category
static int run_analyser(Program& p) {
    SemanticAnalyser a;
    try { a.analyse(p); } catch (const BlochError& e) { return e.category == ErrorCategory::Semantic ? 1 : 2; }
    return 0;
}

// Rule "use before declaration": an undeclared name y used as (0) initialiser, (1) assignment value, (2) echo argument,
// (3) condition operand; twin: the same program with y declared first must be accepted.
extern "C" void harness_undeclared() {
    const int pos = verif_param(0);
    const bool declared = verif_param(1) == 1;
    std::vector<std::unique_ptr<Statement>> body;
    if (declared) body.push_back(decl("int", "y", lit("1", "int")));
    if (pos == 0) {
        body.push_back(decl("int", "x", var("y")));
    } else if (pos == 1) {
        body.push_back(decl("int", "x", lit("0", "int")));
        auto as = std::make_unique<AssignmentStatement>();
        as->name = "x"; as->value = var("y");
        body.push_back(std::move(as));
    } else if (pos == 2) {
        auto ec = std::make_unique<EchoStatement>();
        ec->value = var("y");
        body.push_back(std::move(ec));
    } else {
        auto iff = std::make_unique<IfStatement>();
        iff->condition = std::make_unique<BinaryExpression>("==", var("y"), lit("1", "int"));
        iff->thenBranch = std::make_unique<BlockStatement>();
        body.push_back(std::move(iff));
    }
    Program p;
    p.functions.push_back(fn_main(std::move(body)));
    int r = run_analyser(p);
    if (declared) verif_assert(r == 0, "C16: the program without the violation is accepted");
    else verif_assert(r == 1, "C16: a name used before any declaration is a Semantic error wherever it is written");
    (void)p.functions[0].release();
    verif_reach();
}
