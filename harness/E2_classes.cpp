// Class table construction (RuntimeEvaluator::buildClassTable) on hand-built class declarations.
//  harness_vtable      : C12     - every dispatch-table entry points at a live method record of that class
//  harness_class_order : C10     - the inherited layout does not depend on the order of the class declarations
#include "eval_common.h"

static std::unique_ptr<MethodDeclaration> method(const char* name, int nparams, bool isVirtual) {
    auto m = std::make_unique<MethodDeclaration>();
    m->name = name;
    m->isVirtual = isVirtual;
    m->returnType = std::make_unique<VoidType>();
    m->body = std::make_unique<BlockStatement>();
    for (int i = 0; i < nparams; ++i) {
        auto p = std::make_unique<Parameter>();
        p->name = i == 0 ? "a" : "b";
        p->type = std::make_unique<PrimitiveType>("int");
        m->params.push_back(std::move(p));
    }
    m->line = verif_nd_int(); m->column = verif_nd_int();
    return m;
}
static std::unique_ptr<FieldDeclaration> field(const char* name) {
    auto f = std::make_unique<FieldDeclaration>();
    f->name = name;
    f->fieldType = std::make_unique<PrimitiveType>("int");
    return f;
}

// P0 = number of virtual overloads of one name in the class (1..3)
extern "C" void harness_vtable() {
    const int k = verif_param(0);
    Program p;
    auto cls = std::make_unique<ClassDeclaration>();
    cls->name = "A";
    MethodDeclaration* decls[3] = {nullptr, nullptr, nullptr};
    for (int i = 0; i < k; ++i) {
        auto m = method("m", i, true);
        decls[i] = m.get();
        cls->members.push_back(std::move(m));
    }
    p.classes.push_back(std::move(cls));
    RuntimeEvaluator ev(false);
    ev.buildClassTable(p);
    RuntimeClass* rc = ev.findClass("A");
    verif_assert(rc != nullptr, "C12: the class is registered");
    if (rc) {
        verif_assert((int)rc->vtable.size() == k, "C12: one dispatch entry per virtual overload");
        for (auto& kv : rc->vtable) {
            RuntimeMethod* rm = kv.second;          // the pointer a virtual call will follow
            bool known = false;
            for (int i = 0; i < k; ++i) known = known || rm->decl == decls[i];   // dereference: must be live storage
            verif_assert(known, "C12: a dispatch entry leads to a method declared in this class");
            verif_assert(rm->owner == rc && rm->isVirtual, "C12: dispatch entries carry their owner and flags");
        }
    }
    (void)p.classes[0].release();
    verif_reach();
}

// class B extends A { int w; }  class A { int v; }   P0 = order (0: A first, 1: B first)
extern "C" void harness_class_order() {
    const int order = verif_param(0);
    auto a = std::make_unique<ClassDeclaration>();
    a->name = "A";
    a->members.push_back(field("v"));
    a->members.push_back(method("m", 0, true));
    auto b = std::make_unique<ClassDeclaration>();
    b->name = "B";
    b->baseName = {"A"};
    b->members.push_back(field("w"));
    Program p;
    if (order == 0) { p.classes.push_back(std::move(a)); p.classes.push_back(std::move(b)); }
    else { p.classes.push_back(std::move(b)); p.classes.push_back(std::move(a)); }
    RuntimeEvaluator ev(false);
    ev.buildClassTable(p);
    RuntimeClass* rb = ev.findClass("B");
    RuntimeClass* ra = ev.findClass("A");
    verif_assert(ra && rb && rb->base == ra, "C10: the base link is resolved whatever the declaration order");
    if (ra && rb) {
        verif_assert(rb->instanceFields.size() == 2, "C10: the derived layout contains the inherited field in either order");
        if (rb->instanceFields.size() == 2)
            verif_assert(rb->instanceFields[0].name == "v" && rb->instanceFields[1].name == "w", "C12: base fields are a prefix of the derived layout");
        verif_assert(rb->vtable.size() == 1, "C10: the inherited dispatch table is present in either order");
    }
    (void)p.classes[0].release();
    (void)p.classes[1].release();
    verif_reach();
}

// class C extends B { int u; }  class B extends A { int w; override m() }  class A { int v; virtual m() }
// P0 = permutation of the three declarations (0..5, lexicographic over A,B,C)
extern "C" void harness_class_chain() {
    static const int perms[6][3] = {{0, 1, 2}, {0, 2, 1}, {1, 0, 2}, {1, 2, 0}, {2, 0, 1}, {2, 1, 0}};
    const int* perm = perms[verif_param(0)];
    std::unique_ptr<ClassDeclaration> cls[3];
    for (int i = 0; i < 3; ++i) cls[i] = std::make_unique<ClassDeclaration>();
    cls[0]->name = "A";
    cls[0]->members.push_back(field("v"));
    cls[0]->members.push_back(method("m", 0, true));
    cls[1]->name = "B";
    cls[1]->baseName = {"A"};
    cls[1]->members.push_back(field("w"));
    {
        auto m = method("m", 0, false);
        m->isOverride = true;
        cls[1]->members.push_back(std::move(m));
    }
    cls[2]->name = "C";
    cls[2]->baseName = {"B"};
    cls[2]->members.push_back(field("u"));
    Program p;
    for (int i = 0; i < 3; ++i) p.classes.push_back(std::move(cls[perm[i]]));
    RuntimeEvaluator ev(false);
    ev.buildClassTable(p);
    RuntimeClass* ra = ev.findClass("A");
    RuntimeClass* rb = ev.findClass("B");
    RuntimeClass* rc = ev.findClass("C");
    verif_assert(ra && rb && rc && rb->base == ra && rc->base == rb, "C10: base links are resolved whatever the declaration order");
    if (ra && rb && rc) {
        verif_assert(ra->instanceFields.size() == 1 && rb->instanceFields.size() == 2 && rc->instanceFields.size() == 3,
                     "C10: every layout contains the inherited fields whatever the declaration order");
        if (rc->instanceFields.size() == 3) {
            verif_assert(rc->instanceFields[0].name == "v" && rc->instanceFields[1].name == "w" && rc->instanceFields[2].name == "u",
                         "C10: inherited fields come first, in inheritance order");
            verif_assert(rc->instanceFields[0].offset == 0 && rc->instanceFields[1].offset == 1 && rc->instanceFields[2].offset == 2,
                         "C10: field slots do not overlap");
        }
        verif_assert(ra->vtable.size() == 1 && rb->vtable.size() == 1 && rc->vtable.size() == 1, "C10: one dispatch entry for m() in every class");
        if (ra->vtable.size() == 1 && rc->vtable.size() == 1 && rb->vtable.size() == 1) {
            verif_assert(ra->vtable.begin()->second->owner == ra, "C10: A dispatches m() to A");
            verif_assert(rb->vtable.begin()->second->owner == rb, "C10: B dispatches m() to its override");
            verif_assert(rc->vtable.begin()->second->owner == rb, "C10: C inherits B's override whatever the declaration order");
        }
    }
    for (int i = 0; i < 3; ++i) (void)p.classes[i].release();
    verif_reach();
}

// C08 dispatch kernel on a table built by the real buildClassTable:
//   class A { int v;  virtual m() -> int { return 10; }  virtual m(int a) -> int { return 11; }  p(int a) -> int { return 40; }
//             virtual q() -> int { return 50; }  virtual r() -> int { return this.v; }  t() -> int { return m(); } }
//   class B extends A { override m() -> int { return 20; }  n() -> int { return super.m(); }  p(long a) -> int { return 41; }
//                       override q() -> int { return super.q(); }  override r() -> int { return super.r(); } }
//   class C extends B { override m(int a) -> int { return 31; } }
// P0 = static class of the variable (0 A, 1 B, 2 C), P1 = dynamic class of the object (>= P0),
// P2 = call (0: o.m(), 1: o.m(<int>), 2: o.n(), 3: o.p(<int>), 4: o.q(), 5: o.r(), 6: o.t())
static std::unique_ptr<MethodDeclaration> returning(const char* name, int nparams, bool isVirtual, bool isOverride, std::unique_ptr<Expression> value) {
    auto m = method(name, nparams, isVirtual);
    m->isOverride = isOverride;
    m->returnType = std::make_unique<PrimitiveType>("int");
    auto rs = std::make_unique<ReturnStatement>();
    rs->value = std::move(value);
    m->body->statements.push_back(std::move(rs));
    return m;
}
static std::unique_ptr<Expression> lit(const char* v) { return std::make_unique<LiteralExpression>(v, "int"); }
static std::unique_ptr<Expression> memberCall(std::unique_ptr<Expression> object, const char* name, std::vector<std::unique_ptr<Expression>> args) {
    auto ma = std::make_unique<MemberAccessExpression>();
    ma->object = std::move(object);
    ma->member = name;
    ma->line = verif_nd_int(); ma->column = verif_nd_int();
    return std::make_unique<CallExpression>(std::move(ma), std::move(args));
}

extern "C" void harness_dispatch() {
    const int stat = verif_param(0), dyn = verif_param(1), call = verif_param(2);
    static const char* names[3] = {"A", "B", "C"};
    std::unique_ptr<ClassDeclaration> cls[3];
    for (int i = 0; i < 3; ++i) { cls[i] = std::make_unique<ClassDeclaration>(); cls[i]->name = names[i]; }
    cls[0]->members.push_back(field("v"));
    cls[0]->members.push_back(returning("m", 0, true, false, lit("10")));
    cls[0]->members.push_back(returning("m", 1, true, false, lit("11")));
    cls[0]->members.push_back(returning("p", 1, false, false, lit("40")));
    cls[0]->members.push_back(returning("q", 0, true, false, lit("50")));
    {
        auto thisV = std::make_unique<MemberAccessExpression>();
        thisV->object = std::make_unique<ThisExpression>();
        thisV->member = "v";
        thisV->line = verif_nd_int(); thisV->column = verif_nd_int();
        cls[0]->members.push_back(returning("r", 0, true, false, std::move(thisV)));
    }
    {
        auto um = std::make_unique<CallExpression>(std::make_unique<VariableExpression>("m"), std::vector<std::unique_ptr<Expression>>{});
        um->line = verif_nd_int(); um->column = verif_nd_int();
        cls[0]->members.push_back(returning("t", 0, false, false, std::move(um)));      // unqualified call of a virtual method
    }
    cls[1]->baseName = {"A"};
    cls[1]->members.push_back(returning("m", 0, false, true, lit("20")));
    cls[1]->members.push_back(returning("n", 0, false, false, memberCall(std::make_unique<SuperExpression>(), "m", {})));
    {
        auto pl = returning("p", 1, false, false, lit("41"));
        pl->params[0]->type = std::make_unique<PrimitiveType>("long");
        cls[1]->members.push_back(std::move(pl));
    }
    cls[1]->members.push_back(returning("q", 0, false, true, memberCall(std::make_unique<SuperExpression>(), "q", {})));
    cls[1]->members.push_back(returning("r", 0, false, true, memberCall(std::make_unique<SuperExpression>(), "r", {})));
    cls[2]->baseName = {"B"};
    cls[2]->members.push_back(returning("m", 1, false, true, lit("31")));
    Program p;
    for (int i = 0; i < 3; ++i) p.classes.push_back(std::move(cls[i]));
    RuntimeEvaluator ev(false);
    ev.buildClassTable(p);
    RuntimeClass* rdyn = ev.findClass(names[dyn]);
    verif_assert(rdyn != nullptr, "C08: classes registered");
    if (rdyn) {
        auto obj = std::make_shared<Object>();
        obj->cls = rdyn;
        obj->skipDestructor = true;
        Value fv;
        fv.type = Value::Type::Int;
        fv.intValue = verif_nd_int();
        obj->fields.push_back(fv);                 // slot 0 = A.v
        ev.beginScope();
        Value o;
        o.type = Value::Type::Object;
        o.objectValue = obj;
        o.className = names[stat];
        ev.m_env.back()["o"] = {o, false, true};
        std::vector<std::unique_ptr<Expression>> args;
        Value argv;
        if (call == 1 || call == 3) {
            // the argument is a variable holding an arbitrary int
            argv.type = Value::Type::Int;
            argv.intValue = verif_nd_int();
            ev.m_env.back()["k"] = {argv, false, true};
            args.push_back(std::make_unique<VariableExpression>("k"));
        }
        auto e = memberCall(std::make_unique<VariableExpression>("o"), call == 2 ? "n" : call == 3 ? "p" : call == 4 ? "q" : call == 5 ? "r" : call == 6 ? "t" : "m", std::move(args));
        Value r = ev.eval(e.get());
        int expect = call == 0 ? (dyn == 0 ? 10 : 20) : call == 1 ? (dyn == 2 ? 31 : 11) : call == 2 ? 10 : call == 3 ? 40 : call == 4 ? 50 : call == 5 ? fv.intValue : (dyn == 0 ? 10 : 20);
        verif_assert(r.type == Value::Type::Int, "C08: the call returns the int the selected body returns");
        verif_assert(r.intValue == expect, "C08: a virtual call runs the most-derived override of the receiver's dynamic class for the overload "
                                           "selected by the argument types (exact match over widening, at any level of the hierarchy); super.m() runs the base version on the same receiver");
        verif_assert(ev.m_env.size() == 1, "C08: the callee's scope is popped");
    }
    for (int i = 0; i < 3; ++i) (void)p.classes[i].release();
    verif_reach();
}

// C08 construction order on a table built by the real buildClassTable, driven through the real runConstructorChain:
//   class A { int t = 1;           constructor() { t = t * 10 + 2; } }
//   class B extends A { int w = t * 10 + 3;   constructor(int k) { [super();] t = w * 10 + k; } }
// base constructor (A's initialiser, then A's body), then B's initialiser, then B's body  <=>  w == 123 and t == 1230 + k.
// P0 = 0: explicit super() as first statement, 1: implicit base construction.  k symbolic (|k| < 1000).
static std::unique_ptr<Expression> times10plus(const char* v, std::unique_ptr<Expression> add) {
    auto mul = std::make_unique<BinaryExpression>("*", std::make_unique<VariableExpression>(v), lit("10"));
    return std::make_unique<BinaryExpression>("+", std::move(mul), std::move(add));
}
static std::unique_ptr<Statement> assignStmt(const char* name, std::unique_ptr<Expression> value) {
    auto as = std::make_unique<AssignmentStatement>();
    as->name = name;
    as->value = std::move(value);
    as->line = verif_nd_int(); as->column = verif_nd_int();
    return as;
}
extern "C" void harness_construct() {
    const bool implicitSuper = verif_param(0) == 1;
    auto a = std::make_unique<ClassDeclaration>();
    a->name = "A";
    {
        auto f = field("t");
        f->initializer = lit("1");
        a->members.push_back(std::move(f));
        auto c = std::make_unique<ConstructorDeclaration>();
        c->body = std::make_unique<BlockStatement>();
        c->body->statements.push_back(assignStmt("t", times10plus("t", lit("2"))));
        a->members.push_back(std::move(c));
    }
    auto b = std::make_unique<ClassDeclaration>();
    b->name = "B";
    b->baseName = {"A"};
    ConstructorDeclaration* bctor = nullptr;
    {
        auto f = field("w");
        f->initializer = times10plus("t", lit("3"));
        b->members.push_back(std::move(f));
        auto c = std::make_unique<ConstructorDeclaration>();
        auto prm = std::make_unique<Parameter>();
        prm->name = "k";
        prm->type = std::make_unique<PrimitiveType>("int");
        c->params.push_back(std::move(prm));
        c->body = std::make_unique<BlockStatement>();
        if (!implicitSuper) {
            auto es = std::make_unique<ExpressionStatement>();
            es->expression = std::make_unique<CallExpression>(std::make_unique<SuperExpression>(), std::vector<std::unique_ptr<Expression>>{});
            c->body->statements.push_back(std::move(es));
        }
        c->body->statements.push_back(assignStmt("t", times10plus("w", std::make_unique<VariableExpression>("k"))));
        bctor = c.get();
        b->members.push_back(std::move(c));
    }
    Program p;
    p.classes.push_back(std::move(a));
    p.classes.push_back(std::move(b));
    RuntimeEvaluator ev(false);
    ev.buildClassTable(p);
    RuntimeClass* rb = ev.findClass("B");
    verif_assert(rb && rb->instanceFields.size() == 2, "C08: B has the inherited field and its own");
    if (rb && rb->instanceFields.size() == 2) {
        auto obj = std::make_shared<Object>();
        obj->cls = rb;
        obj->skipDestructor = true;
        obj->fields.resize(2);
        Value k;
        k.type = Value::Type::Int;
        k.intValue = verif_nd_int();
        verif_assume(k.intValue > -1000 && k.intValue < 1000);
        ev.runConstructorChain(rb, obj, bctor, {k});
        verif_assert(obj->fields[1].type == Value::Type::Int && obj->fields[1].intValue == 123,
                     "C08: a class's field initialisers run after the base constructor has finished and before its own constructor body");
        verif_assert(obj->fields[0].type == Value::Type::Int && obj->fields[0].intValue == 1230 + k.intValue,
                     "C08: construction is base-first: base initialisers, base body, own initialisers, own body");
        verif_assert(ev.m_env.empty(), "C08: constructor scopes are popped");
    }
    (void)p.classes[0].release();
    (void)p.classes[1].release();
    verif_reach();
}
