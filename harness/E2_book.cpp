// Evaluator-side qubit bookkeeping (C03: handles stay distinct; C06: both copies of the measured flag agree).
#include "eval_common.h"

// P0 = k qubits allocated up front.  Which of them have been released, which are marked measured: symbolic.
extern "C" void harness_book_alloc() {
    const int k = verif_param(0);
    RuntimeEvaluator ev(false);
    for (int i = 0; i < k; ++i) ev.allocateTrackedQubit("q");
    verif_assert((int)ev.m_qubits.size() == k && (int)ev.m_lastMeasurement.size() == k && ev.m_sim.m_qubits == k, "C03: bookkeeping vectors track the qubit count");
    bool live[4] = {false, false, false, false};
    for (int i = 0; i < k; ++i) {
        bool measured = verif_nd_bool();
        if (measured) { ev.markMeasured(i); ev.m_sim.m_measured[i] = true; ev.m_lastMeasurement[i] = verif_nd_bool() ? 1 : 0; }
        live[i] = !((verif_param(1) >> i) & 1);   // released set enumerated: the reused index feeds simulator loops
        if (!live[i]) ev.releaseQubit(i);   // the owning object was destroyed
    }
    int idx = ev.allocateTrackedQubit("n");
    verif_assert(idx >= 0 && idx <= k, "C03: the handle is an existing or the next index");
    for (int i = 0; i < k; ++i)
        if (live[i]) verif_assert(idx != i, "C03: a new declaration never shares a simulator qubit with a handle that is still live");
    verif_assert((int)ev.m_qubits.size() == ev.m_sim.m_qubits && (int)ev.m_lastMeasurement.size() == ev.m_sim.m_qubits, "C03: bookkeeping stays in step with the simulator");
    verif_assert((int)ev.m_sim.m_state.size() == (1 << ev.m_sim.m_qubits), "C03: state has 2^n amplitudes");
    verif_assert(!ev.m_qubits[idx].measured && !ev.m_sim.m_measured[idx] && ev.m_lastMeasurement[idx] == -1, "C06: a (re)allocated qubit is usable and has no recorded outcome");
    for (size_t a = 0; a < ev.m_freeQubitIndices.size(); ++a) {
        int f = ev.m_freeQubitIndices[a];
        verif_assert(f >= 0 && f < k && !live[f] && f != idx, "C03: the free list holds only released, not re-issued indices");
        for (size_t b = a + 1; b < ev.m_freeQubitIndices.size(); ++b) verif_assert(ev.m_freeQubitIndices[b] != f, "C03: no index is on the free list twice");
    }
    verif_reach();
}

// gate-site / measure-site refusal through the evaluator's own flag copy: ensureQubitActive(i, line, col)
extern "C" void harness_book_active() {
    const int k = verif_param(0);
    RuntimeEvaluator ev(false);
    for (int i = 0; i < k; ++i) ev.allocateTrackedQubit("q");
    bool m[4];
    for (int i = 0; i < k; ++i) { m[i] = verif_nd_bool(); if (m[i]) ev.markMeasured(i); }
    // idx is enumerated (P1-1): a symbolic index would flow into the error message (std::to_string + concatenation),
    // and symbolic string lengths give no verdict (300 s, 12 GB)
    int idx = verif_param(1) - 1, line = verif_nd_int(), col = verif_nd_int();
    bool threw = false;
    try { ev.ensureQubitActive(idx, line, col); } catch (const BlochError& e) {
        threw = true;
        verif_assert(e.category == ErrorCategory::Runtime, "C06: using a measured qubit is a Runtime error");
        verif_assert(e.line == line && e.column == col, "C06: the error is located at the caller's position");
    }
    bool bad = idx < 0 || idx >= k;
    verif_assert(threw == (bad || m[bad ? 0 : idx]), "C06: refused exactly when the qubit does not exist or is marked measured");
    verif_reach();
}

// exec(MeasureStatement) through the evaluator: `measure <qubit>` and `measure <qubit[]>` where the array's qubit ids differ
// from their positions (another qubit was declared first).  P0: 0 = single qubit, 1 = array of two.  Statement position symbolic.
extern "C" void harness_measure_stmt() {
    const bool array = verif_param(0) == 1;
    RuntimeEvaluator ev(false);
    ev.beginScope();
    int a = ev.allocateTrackedQubit("a");
    int q0 = ev.allocateTrackedQubit("qs[0]");
    int q1 = ev.allocateTrackedQubit("qs[1]");
    verif_assert(a == 0 && q0 == 1 && q1 == 2, "C03: handles are issued in order");
    Value v;
    if (array) { v.type = Value::Type::QubitArray; v.qubitArray = {q0, q1}; }
    else { v.type = Value::Type::Qubit; v.qubit = q1; }
    ev.m_env.back()["qs"] = {v, false, true};
    MeasureStatement ms;
    ms.qubit = std::make_unique<VariableExpression>("qs");
    ms.line = verif_nd_int();
    ms.column = verif_nd_int();
    g_draws = 0;
    // draws are concrete here: symbolic draws make both collapse branches of both measurements symbolic inside exec/eval
    // (26 GB, no verdict in 900 s); the outcome rule itself is decided by the C02 simulator queries
    g_draw_value[0] = 0.25;
    g_draw_value[1] = 0.75;
    bool threw = false;
    try { ev.exec(&ms); } catch (const BlochError&) { threw = true; }
    verif_assert(!threw, "C06: never-measured qubits are not refused");
    verif_assert(!ev.m_qubits[a].measured && !ev.m_sim.m_measured[a] && ev.m_lastMeasurement[a] == -1, "C06: a qubit that was not measured stays usable");
    verif_assert(ev.m_qubits[q1].measured && ev.m_sim.m_measured[q1], "C06: the measured qubit is marked in both flag stores");
    verif_assert(ev.m_lastMeasurement[q1] == 0 || ev.m_lastMeasurement[q1] == 1, "C02: the outcome is recorded for the tracked table");
    if (array) {
        verif_assert(ev.m_qubits[q0].measured && ev.m_sim.m_measured[q0], "C06: measuring a qubit[] marks every element");
        verif_assert(ev.m_lastMeasurement[q0] == 0 || ev.m_lastMeasurement[q0] == 1, "C02: every element's outcome is recorded");
        verif_assert(g_draws == 2, "C02: one draw per element");
    } else {
        verif_assert(!ev.m_qubits[q0].measured && !ev.m_sim.m_measured[q0] && ev.m_lastMeasurement[q0] == -1, "C06: other qubits are untouched");
        verif_assert(g_draws == 1, "C02: one draw");
    }
    // a second use of a measured element is refused at the caller's position
    bool threw2 = false;
    try { ev.ensureQubitActive(q1, ms.line, ms.column); } catch (const BlochError& e) {
        threw2 = true;
        verif_assert(e.category == ErrorCategory::Runtime && e.line == ms.line && e.column == ms.column, "C06: located Runtime error on reuse");
    }
    verif_assert(threw2, "C06: a measured qubit cannot be operated on until reset");
    verif_reach();
}
