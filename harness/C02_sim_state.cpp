// C02 (measure), C04 (reset), C03a (allocate / state length) over QasmSimulator with a fully symbolic state.
// Enumerated: P0 = n, P1 = q.
#include "sim_common.h"

static void make_state(QasmSimulator& s, int n, std::vector<cplx>& in) {
    for (int i = 0; i < n; ++i) s.allocateQubit();
    for (auto& a : s.m_state) a = cplx(verif_nd_double(), verif_nd_double());
    if (verif_native()) {  // native replays run on a unit vector (the solver side needs no normalisation: terms only)
        double nn = 0;
        for (auto& a : s.m_state) nn += std::norm(a);
        if (nn > 0) for (auto& a : s.m_state) a /= std::sqrt(nn);
    }
    in = s.m_state;
}
static bool ceq(const cplx& a, const cplx& b) { return verif_feq(a.real(), b.real()) && verif_feq(a.imag(), b.imag()); }
static bool is_zero(const cplx& a) { return a.real() == 0.0 && a.imag() == 0.0; }

extern "C" void harness_measure() {
    int n = verif_param(0), q = verif_param(1);
    QasmSimulator s(false);
    std::vector<cplx> in;
    make_state(s, n, in);
    double r = verif_nd_unit();
    g_draws = 0;
    g_draw_value[0] = r;
    int qubits_before = s.m_qubits;
    int res = s.measure(q);
    // oracle
    size_t bit = size_t{1} << q;
    double p1 = 0;
    for (size_t i = 0; i < in.size(); ++i)
        if (i & bit) p1 += std::norm(in[i]);
    verif_assert(g_draws == 1, "C02: measure consumes exactly one random draw");
    verif_assert(res == 0 || res == 1, "C02: outcome is a bit");
    verif_assert((res == 1) == (r < p1), "C02: outcome is 1 exactly when the uniform draw falls below P(1) (Born rule)");
    verif_assert(s.m_state.size() == in.size(), "C03: measure keeps the state length");
    double nrm = std::sqrt(res ? p1 : 1 - p1);
    for (size_t i = 0; i < in.size(); ++i) {
        bool on_branch = ((i & bit) ? 1 : 0) == res;
        if (!on_branch)
            verif_assert(is_zero(s.m_state[i]), "C02: amplitudes of the other outcome are exactly zero after collapse");
        else
            verif_assert(ceq(s.m_state[i], in[i] / nrm), "C02: surviving amplitudes are the old ones divided by sqrt(P(outcome))");
    }
    verif_assert(s.m_measured[q], "C06: measured flag set by measure");
    verif_assert(s.m_qubits == qubits_before, "C03: measure does not change the qubit count");
    verif_reach();
}

extern "C" void harness_reset() {
    int n = verif_param(0), q = verif_param(1);
    QasmSimulator s(false);
    std::vector<cplx> in;
    make_state(s, n, in);
    bool was_measured = verif_nd_bool();
    s.m_measured[q] = was_measured;
    double r = verif_nd_unit();
    g_draws = 0;
    g_draw_value[0] = r;
    s.reset(q);
    size_t bit = size_t{1} << q;
    double p1 = 0, p0 = 0;
    for (size_t i = 0; i < in.size(); ++i) {
        if (i & bit) p1 += std::norm(in[i]);
        else p0 += std::norm(in[i]);
    }
    verif_assert(s.m_state.size() == in.size(), "C03: reset keeps the state length");
    verif_assert(!s.m_measured[q], "C06: reset clears the measured flag");
    for (size_t i = 0; i < in.size(); ++i)
        if (i & bit) verif_assert(is_zero(s.m_state[i]), "C04: after reset the target bit is 0 in every non-zero amplitude");
    // reset = "measure, then X if the outcome was 1".  A reset that makes no random choice can only be right when
    // one of the two branches is empty; otherwise it post-selects and changes the other qubits' statistics.
    verif_assert(g_draws <= 1, "C04: reset makes at most one random draw");
    if (g_draws == 0) {
        verif_assert(p1 == 0.0 || p0 == 0.0, "C04: reset of a qubit with both outcomes possible must sample the outcome (no post-selection)");
    } else {
        int b = (r < p1) ? 1 : 0;
        double nrm = std::sqrt(b ? p1 : 1 - p1);
        for (size_t i = 0; i < in.size(); ++i)
            if (!(i & bit))
                verif_assert(ceq(s.m_state[i], in[b ? (i | bit) : i] / nrm),
                             "C04: post-reset state is the normalised projection on the sampled outcome, moved to target=0");
    }
    verif_reach();
}

// reset with an out-of-range index is refused with a Runtime BlochError and leaves the state alone
extern "C" void harness_reset_range() {
    int n = verif_param(0);
    QasmSimulator s(false);
    std::vector<cplx> in;
    make_state(s, n, in);
    static const int kBad[] = {-1, -2147483647 - 1, 0 /* = n */, 1 /* = n+1 */, 64, 2147483647};
    int k = verif_param(1);
    int q = (k == 2 || k == 3) ? n + (k - 2) : kBad[k];  // enumerated out-of-range indices
    bool threw = false;
    try {
        s.reset(q);
    } catch (const BlochError& e) {
        threw = true;
        verif_assert(e.category == ErrorCategory::Runtime, "C04: out-of-range reset is a Runtime error");
    }
    verif_assert(threw, "C04: out-of-range reset is refused");
    for (size_t i = 0; i < in.size(); ++i)
        verif_assert(std::memcmp(&s.m_state[i], &in[i], sizeof(cplx)) == 0, "C04: refused reset leaves the state untouched");
    verif_reach();
}

extern "C" void harness_alloc() {
    int n = verif_param(0);
    QasmSimulator s(false);
    std::vector<cplx> in;
    make_state(s, n, in);
    for (int i = 0; i < n; ++i) s.m_measured[i] = verif_nd_bool();
    std::vector<bool> flags = s.m_measured;
    int idx = s.allocateQubit();
    verif_assert(idx == n, "C03: allocateQubit returns the next index");
    verif_assert(s.m_qubits == n + 1, "C03: qubit count grows by one");
    verif_assert(s.m_state.size() == 2 * in.size(), "C03: state doubles to 2^(n+1) amplitudes");
    for (size_t i = 0; i < in.size(); ++i) {
        verif_assert(std::memcmp(&s.m_state[i], &in[i], sizeof(cplx)) == 0, "C03: existing qubits keep their amplitudes bit-for-bit");
        verif_assert(is_zero(s.m_state[i + in.size()]), "C03: the new qubit starts in |0> (upper half zero)");
    }
    verif_assert(!s.m_measured[idx], "C06: a fresh qubit is not marked measured");
    for (int i = 0; i < n; ++i) verif_assert(s.m_measured[i] == flags[i], "C06: allocation leaves other qubits' flags alone");
    verif_reach();
}

// memory-safety twins (bit-precise, all pointer checks): symbolic index incl. out-of-range values
extern "C" void harness_ops_mem() {
    int n = verif_param(0), op = verif_param(1);
    QasmSimulator s(false);
    for (int i = 0; i < n; ++i) s.allocateQubit();
    int q = verif_param(2) - 2;  // enumerated: -2 .. n+1 (a symbolic index makes every loop bound symbolic: no verdict)
    g_draws = 0;
    g_draw_value[0] = verif_nd_unit();
    bool threw = false;
    try {
        if (op == 0) s.measure(q);
        else if (op == 1) s.reset(q);
        else s.x(q);
    } catch (const BlochError& e) {
        threw = true;
        verif_assert(e.category == ErrorCategory::Runtime, "C12: simulator refusals are Runtime errors");
    }
    verif_assert(threw == (q < 0 || q >= n), "C06: an in-range unmeasured qubit is never refused; an out-of-range one always is");
    verif_assert(s.m_state.size() == (size_t{1} << n), "C03: state length unchanged");
    verif_reach();
}
