// C17: @tracked accounting in the evaluator - endScope()/recordTrackedValue record exactly one outcome per tracked entry.
// P0 = kind of the closing scope's entry (0 tracked qubit, 1 untracked qubit, 2 tracked qubit[2]); last measurements symbolic.
#include "eval_common.h"

static int count_of(RuntimeEvaluator& ev, const char* key, const char* outcome) {
    auto it = ev.m_trackedCounts.find(key);
    if (it == ev.m_trackedCounts.end()) return 0;
    auto jt = it->second.find(outcome);
    return jt == it->second.end() ? 0 : jt->second;
}

extern "C" void harness_endscope() {
    const int kind = verif_param(0);
    RuntimeEvaluator ev(false);
    // three qubits' last measurements: -1 (never), 0 or 1 - symbolic
    ev.m_lastMeasurement.resize(3, -1);
    int lm[3];
    for (int i = 0; i < 3; ++i) {
        int v = (int)(verif_nd_u8() % 3) - 1;
        // for the array kind the two elements' records are enumerated (P1 = 3*(lm1+1) + (lm2+1)): symbolic records make the
        // outcome STRING symbolic and the count-table lookup on it gives no verdict in 900 s
        if (kind == 2 && i == 1) v = verif_param(1) / 3 - 1;
        if (kind == 2 && i == 2) v = verif_param(1) % 3 - 1;
        lm[i] = v;
        ev.m_lastMeasurement[i] = v;
    }
    // earlier counts for the same key (symbolic) and for an unrelated key
    int prior1 = (int)(verif_nd_u8() & 63), prior0 = (int)(verif_nd_u8() & 63), priorQ = (int)(verif_nd_u8() & 63), other = (int)(verif_nd_u8() & 63);
    const char* key = kind == 2 ? "qubit[] r" : "qubit q";
    const char* o1 = kind == 2 ? "10" : "1";
    const char* o0 = kind == 2 ? "01" : "0";
    ev.m_trackedCounts[key][o1] = prior1;
    ev.m_trackedCounts[key][o0] = prior0;
    ev.m_trackedCounts[key]["?"] = priorQ;
    ev.m_trackedCounts["qubit z"]["1"] = other;
    ev.beginScope();
    ev.beginScope();
    Value v;
    if (kind == 2) { v.type = Value::Type::QubitArray; v.qubitArray = {1, 2}; }
    else { v.type = Value::Type::Qubit; v.qubit = 1; }
    ev.m_env.back()[kind == 2 ? "r" : "q"] = {v, kind != 1, true};
    ev.endScope();
    verif_assert(ev.m_env.size() == 1, "C17: the scope is popped");
    int d1 = count_of(ev, key, o1) - prior1, d0 = count_of(ev, key, o0) - prior0, dq = count_of(ev, key, "?") - priorQ;
    verif_assert(count_of(ev, "qubit z", "1") == other, "C17: other variables' counts are untouched");
    if (kind == 1) {
        verif_assert(d1 == 0 && d0 == 0 && dq == 0, "C17: an untracked variable contributes nothing");
    } else {
        verif_assert(d1 >= 0 && d0 >= 0 && dq >= 0, "C17: counts never decrease");
        int others = 0;
        if (kind == 2) { others = count_of(ev, key, "00") + count_of(ev, key, "11"); }
        verif_assert(d1 + d0 + dq + others == 1, "C17: exactly one outcome is recorded per scope exit of a tracked variable");
        if (kind == 0) {
            verif_assert(dq == (lm[1] == -1 ? 1 : 0) && d1 == (lm[1] == 1 ? 1 : 0) && d0 == (lm[1] == 0 ? 1 : 0),
                         "C17: the outcome is the last measurement of the qubit, or ? if it was never measured");
        } else {
            bool any_unmeasured = lm[1] == -1 || lm[2] == -1;
            verif_assert(dq == (any_unmeasured ? 1 : 0), "C17: ? exactly when some element is unmeasured");
            if (!any_unmeasured) {
                verif_assert(d1 == ((lm[1] == 1 && lm[2] == 0) ? 1 : 0) && d0 == ((lm[1] == 0 && lm[2] == 1) ? 1 : 0) &&
                             count_of(ev, key, "00") == ((lm[1] == 0 && lm[2] == 0) ? 1 : 0) && count_of(ev, key, "11") == ((lm[1] == 1 && lm[2] == 1) ? 1 : 0),
                             "C17: the outcome string lists the elements' last measurements in index order");
            }
        }
    }
    verif_reach();
}
