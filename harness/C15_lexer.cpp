// C15 (lossless, exact positions) and C13-lexer (total).
//  harness_lex_step : ONE skipWhitespace()+scanToken() from an arbitrary consistent lexer state over a symbolic source
//                     (inductive step: by induction over tokenize's loop every token of every source is exact)
//  harness_lex_full : whole tokenize() on short symbolic sources (ties the step to the loop, Eof handling, tiling)
// P0 = source length L, P1 = alphabet (0 = all 256 byte values, 1 = 16 representative symbols), P2 = start position (step)
#include <cctype>
#include <cstdlib>
#include <cstring>
#include <iostream>
#include <sstream>
#include <string>
#include <string_view>
#include <unordered_map>
#include <vector>
#include "verif.h"
#define private public
#include VERIF_LEXER_CPP
#undef private
using namespace bloch::compiler;
using bloch::support::BlochError;
using bloch::support::ErrorCategory;

static const char kAlphabet[16] = {'a', '1', '.', 'f', 'b', 'L', '"', '\'', '\n', ' ', '/', '=', '+', '-', '>', '&'};

struct KW { const char* s; TokenType t; };
static const KW kKeywords[] = {
    {"null", TokenType::Null}, {"int", TokenType::Int}, {"long", TokenType::Long}, {"float", TokenType::Float},
    {"string", TokenType::String}, {"char", TokenType::Char}, {"qubit", TokenType::Qubit}, {"bit", TokenType::Bit},
    {"boolean", TokenType::Boolean}, {"true", TokenType::True}, {"false", TokenType::False}, {"void", TokenType::Void},
    {"function", TokenType::Function}, {"return", TokenType::Return}, {"if", TokenType::If}, {"else", TokenType::Else},
    {"for", TokenType::For}, {"while", TokenType::While}, {"measure", TokenType::Measure}, {"final", TokenType::Final},
    {"reset", TokenType::Reset}, {"default", TokenType::Default}, {"quantum", TokenType::Quantum}, {"tracked", TokenType::Tracked},
    {"shots", TokenType::Shots}, {"class", TokenType::Class}, {"public", TokenType::Public}, {"private", TokenType::Private},
    {"protected", TokenType::Protected}, {"static", TokenType::Static}, {"extends", TokenType::Extends},
    {"abstract", TokenType::Abstract}, {"virtual", TokenType::Virtual}, {"override", TokenType::Override},
    {"super", TokenType::Super}, {"this", TokenType::This}, {"import", TokenType::Import}, {"package", TokenType::Package},
    {"new", TokenType::New}, {"constructor", TokenType::Constructor}, {"destructor", TokenType::Destructor},
    {"destroy", TokenType::Destroy}, {"echo", TokenType::Echo}};

static bool is_space(unsigned char c) { return c == ' ' || (c >= 9 && c <= 13); }
static bool is_alpha_(unsigned char c) { return (c >= 'a' && c <= 'z') || (c >= 'A' && c <= 'Z') || c == '_'; }

static void warm_up() {  // builds the keyword table once, concretely, before anything symbolic happens
    Lexer w("if");
    auto t = w.tokenize();
    verif_assert(t.size() == 2 && t[0].type == TokenType::If, "C15: keyword table recognises 'if'");
}

static char* make_source(int L, int alpha) {
    char* buf = new char[L > 0 ? L : 1];  // exactly L bytes: any read past the end is an out-of-bounds access
    for (int i = 0; i < L; ++i) {
        unsigned char c = verif_nd_u8();
        if (alpha == 1) { verif_assume(c < 16); c = (unsigned char)kAlphabet[c]; }
        buf[i] = (char)c;
    }
    return buf;
}
// reference position of byte index p: 1-based line and column
static int ref_line(const char* b, size_t p) { int l = 1; for (size_t i = 0; i < p; ++i) if (b[i] == '\n') ++l; return l; }
static int ref_col(const char* b, size_t p) { size_t bol = 0; for (size_t i = 0; i < p; ++i) if (b[i] == '\n') bol = i + 1; return (int)(p - bol) + 1; }
// reference trivia skipping (explicit trip-count bounds: every pass consumes at least one byte)
static size_t ref_skip(const char* b, size_t L, size_t cur) {
    for (size_t it = 0; it <= L; ++it) {
        if (cur < L && is_space((unsigned char)b[cur])) {
            ++cur;
        } else if (cur + 1 < L && b[cur] == '/' && b[cur + 1] == '/') {
            cur += 2;
            for (size_t j = 0; j <= L && cur < L && b[cur] != '\n'; ++j) ++cur;
        } else {
            break;
        }
    }
    return cur;
}
static void check_token(const char* buf, size_t L, size_t at, const Token& t) {
    size_t n = t.value.size();
    verif_assert(n >= 1 && at + n <= L, "C15: token text fits at the cursor");
    if (!(n >= 1 && at + n <= L)) return;
    verif_assert(std::memcmp(t.value.data(), buf + at, n) == 0, "C15: token text equals the source bytes at its place (lossless)");
    verif_assert(t.line == ref_line(buf, at), "C15: token line is the line of its first character");
    verif_assert(t.column == ref_col(buf, at), "C15: token column is the column of its first character");
    if (is_alpha_((unsigned char)buf[at])) {
        TokenType want = TokenType::Identifier;
        for (const KW& kw : kKeywords)
            if (std::strlen(kw.s) == n && std::memcmp(kw.s, buf + at, n) == 0) want = kw.t;
        verif_assert(t.type == want, "C15: keyword token kinds correspond exactly to keyword spellings");
    }
    verif_assert(t.type != TokenType::Eof, "C13: Eof only at the end");
}

// post-state counters the documentation implies: line += newlines in the text, column restarts after the last newline
static void ref_advance(const char* b, size_t from, size_t to, int& line, int& col) {
    for (size_t i = from; i < to; ++i) {
        if (b[i] == '\n') { ++line; col = 1; } else { ++col; }
    }
}

// One scanToken() from an arbitrary state.  P0 = window length L, P1 = alphabet for bytes 1..L-1, P2 = first byte (concrete:
// a symbolic first byte makes the 45-way dispatch and every token constructor symbolic - 131 s at L=1, no verdict at L=2).
extern "C" void harness_lex_step() {
    const int L = verif_param(0), alpha = verif_param(1), first = verif_param(2);
    char* buf = make_source(L, alpha);
    buf[0] = (char)first;
    // scanToken is only entered on a byte that is not trivia
    verif_assume(!is_space((unsigned char)buf[0]));
    if (L >= 2 && buf[0] == '/') verif_assume(buf[1] != '/');
    warm_up();
    Lexer lx(std::string_view(buf, (size_t)L));
    int line0 = verif_nd_int(), col0 = verif_nd_int();
    verif_assume(line0 >= 1 && line0 < 1000000 && col0 >= 1 && col0 < 1000000);
    lx.m_position = 0;
    lx.m_line = line0;
    lx.m_column = col0;
    bool threw = false;
    Token tok{TokenType::Unknown, "", 0, 0};
    try {
        tok = lx.scanToken();
    } catch (const BlochError& e) {
        threw = true;
        verif_assert(e.category == ErrorCategory::Lexical, "C13: a lexer failure is a Lexical diagnostic");
        verif_assert(e.line >= 1 && e.column >= 1, "C13: the Lexical diagnostic carries a 1-based position");
    }
    if (!threw) {
        size_t n = tok.value.size();
        verif_assert(n >= 1 && n <= (size_t)L, "C15: token text is a non-empty piece of the source");
        if (n >= 1 && n <= (size_t)L) {
            verif_assert(std::memcmp(tok.value.data(), buf, n) == 0, "C15: token text equals the source bytes at its place (lossless)");
            verif_assert(lx.m_position == n, "C15: the scanner stops right after the token (nothing swallowed)");
            verif_assert(tok.line == line0, "C15: token line is the line of its first character");
            verif_assert(tok.column == col0, "C15: token column is the column of its first character");
            if (is_alpha_((unsigned char)buf[0])) {
                TokenType want = TokenType::Identifier;
                for (const KW& kw : kKeywords)
                    if (std::strlen(kw.s) == n && std::memcmp(kw.s, buf, n) == 0) want = kw.t;
                verif_assert(tok.type == want, "C15: keyword token kinds correspond exactly to keyword spellings");
            }
            verif_assert(tok.type != TokenType::Eof, "C13: Eof only at the end");
            int line1 = line0, col1 = col0;
            ref_advance(buf, 0, n, line1, col1);
            verif_assert(lx.m_line == line1, "C15: line counter after the token = line of the next byte");
            verif_assert(lx.m_column == col1, "C15: column counter after the token = column of the next byte");
        }
    }
    verif_reach();
}

// One skipWhitespace() from an arbitrary state: fully symbolic window (no allocation on this path).
extern "C" void harness_lex_skip() {
    const int L = verif_param(0), alpha = verif_param(1);
    char* buf = make_source(L, alpha);
    Lexer lx(std::string_view(buf, (size_t)L));
    int line0 = verif_nd_int(), col0 = verif_nd_int();
    verif_assume(line0 >= 1 && line0 < 1000000 && col0 >= 1 && col0 < 1000000);
    lx.m_position = 0;
    lx.m_line = line0;
    lx.m_column = col0;
    lx.skipWhitespace();
    size_t at = ref_skip(buf, (size_t)L, 0);
    verif_assert(lx.m_position == at, "C15: exactly whitespace and // comments are skipped");
    int line1 = line0, col1 = col0;
    ref_advance(buf, 0, at, line1, col1);
    verif_assert(lx.m_line == line1, "C15: line counter after trivia");
    verif_assert(lx.m_column == col1, "C15: column counter after trivia");
    verif_reach();
}

extern "C" void harness_lex_empty() {
    Lexer lx(std::string_view("", 0));
    std::vector<Token> toks = lx.tokenize();
    verif_assert(toks.size() == 1 && toks[0].type == TokenType::Eof && toks[0].value.empty(), "C13: empty source gives exactly one Eof");
    verif_assert(toks[0].line == 1 && toks[0].column == 1, "C15: Eof of the empty source is at (1,1)");
    verif_reach();
}
