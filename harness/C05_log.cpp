// C05: the OpenQASM log lists each performed operation once, in order, after the state change.
// C06 (simulator level): measured-flag state machine.
// Enumerated: P0 = n, P1 = kind (0 h,1 x,2 y,3 z,4 rx,5 ry,6 rz,7 cx,8 reset,9 measure), P2 = q (or control), P3 = t (cx target)
#include <cstdio>
#include "sim_common.h"

static void put_int(std::string& s, int v) {  // independent of std::to_string; small non-negative numbers only
    if (v >= 10) s.push_back(char('0' + (v / 10) % 10));
    s.push_back(char('0' + v % 10));
}
static std::string angle_text(double t) {
    if (!verif_native()) return "<ANGLE>";  // solver side: std::to_string(double) is modelled by this token
    char buf[64];
    std::snprintf(buf, sizeof buf, "%f", t);
    return buf;
}
static std::string expected_line(int kind, int q, int t, double ang) {
    static const char* names[] = {"h", "x", "y", "z", "rx", "ry", "rz", "cx", "reset", "measure"};
    std::string s = names[kind];
    if (kind >= 4 && kind <= 6) { s += "("; s += angle_text(ang); s += ")"; }
    s += " q["; put_int(s, q); s += "]";
    if (kind == 7) { s += ",q["; put_int(s, t); s += "]"; }
    if (kind == 9) { s += " -> c["; put_int(s, q); s += "]"; }
    s += ";\n";
    return s;
}
static void apply(QasmSimulator& s, int kind, int q, int t, double ang) {
    switch (kind) {
        case 0: s.h(q); break;
        case 1: s.x(q); break;
        case 2: s.y(q); break;
        case 3: s.z(q); break;
        case 4: s.rx(q, ang); break;
        case 5: s.ry(q, ang); break;
        case 6: s.rz(q, ang); break;
        case 7: s.cx(q, t); break;
        case 8: s.reset(q); break;
        default: s.measure(q); break;
    }
}

extern "C" void harness_log_step() {
    int n = verif_param(0), kind = verif_param(1), q = verif_param(2), t = verif_param(3);
    bool logging = verif_param(4) != 0;  // enumerated: a symbolic flag makes every string length symbolic (no verdict in 300 s)
    QasmSimulator s(logging);
    for (int i = 0; i < n; ++i) s.allocateQubit();
    double ang = verif_nd_double();
    g_draws = 0;
    g_draw_value[0] = verif_nd_unit();
    g_draw_value[1] = verif_nd_unit();
    s.h(0);  // one earlier operation so that order is observable
    size_t before = s.m_ops.size();
    verif_assert(before == (logging ? 1u : 0u), "C05: one line per operation when logging, none otherwise");
    bool threw = false;
    try {
        apply(s, kind, q, t, ang);
    } catch (const BlochError& e) {
        threw = true;
        verif_assert(e.category == ErrorCategory::Runtime, "C05: refusals are Runtime errors");
    }
    bool in_range = q >= 0 && q < n && (kind != 7 || (t >= 0 && t < n));
    if (kind == 7 && in_range)
        verif_assert(threw == (q == t), "C05: a two-qubit gate is performed exactly when its operands are distinct qubits");
    else
        verif_assert(threw == !in_range, "C05: in-range operations on unmeasured qubits are performed, out-of-range ones refused");
    if (threw || !logging) {
        verif_assert(s.m_ops.size() == before, "C05: a refused operation (or logging off) adds no line");
    } else {
        verif_assert(s.m_ops.size() == before + 1, "C05: a performed operation adds exactly one line");
        verif_assert(s.m_ops[before] == expected_line(kind, q, t, ang), "C05: the line names the operation and its operands in order");
        verif_assert(s.m_ops[0] == "h q[0];\n", "C05: earlier lines stay in place (execution order)");
    }
    // whole-program text
    std::string want = "OPENQASM 2.0;\ninclude \"qelib1.inc\";\n";
    want += "qreg q["; put_int(want, n); want += "];\ncreg c["; put_int(want, n); want += "];\n";
    for (size_t i = 0; i < s.m_ops.size(); ++i) want += s.m_ops[i];
    verif_assert(s.getQasm() == want, "C05: getQasm = header + qreg/creg sized to the qubits used + ops in order");
    verif_reach();
}

// C06 at simulator level. P0 = n, P1 = kind, P2 = q, P3 = t; measured flags symbolic.
extern "C" void harness_flags() {
    int n = verif_param(0), kind = verif_param(1), q = verif_param(2), t = verif_param(3);
    QasmSimulator s(true);
    for (int i = 0; i < n; ++i) s.allocateQubit();
    for (auto& a : s.m_state) a = cplx(verif_nd_double(), verif_nd_double());
    std::vector<cplx> in = s.m_state;
    std::vector<bool> f(n);
    for (int i = 0; i < n; ++i) { f[i] = verif_nd_bool(); s.m_measured[i] = f[i]; }
    double ang = verif_nd_double();
    g_draws = 0;
    g_draw_value[0] = verif_nd_unit();
    bool threw = false;
    try {
        apply(s, kind, q, t, ang);
    } catch (const BlochError& e) {
        threw = true;
        verif_assert(e.category == ErrorCategory::Runtime, "C06: operating on a measured qubit is a Runtime error");
    }
    bool touches_measured = f[q] || (kind == 7 && f[t]);
    if (kind == 8) {
        verif_assert(!threw, "C06: reset is never refused for a valid qubit");
        verif_assert(!s.m_measured[q], "C06: reset makes the qubit usable again");
    } else if (kind == 7 && q == t) {
        // distinct-operand rule belongs to C05
    } else {
        verif_assert(threw == touches_measured, "C06: refused exactly when an operand is marked measured");
        if (threw) {
            for (size_t i = 0; i < in.size(); ++i)
                verif_assert(std::memcmp(&s.m_state[i], &in[i], sizeof(cplx)) == 0, "C06: a refused operation leaves the state untouched");
            verif_assert(s.m_ops.empty(), "C06: a refused operation is not logged");
            verif_assert(g_draws == 0, "C06: a refused operation draws no randomness");
        } else if (kind == 9) {
            verif_assert(s.m_measured[q], "C06: measure marks the qubit");
        }
    }
    for (int i = 0; i < n; ++i)
        if (i != q) verif_assert(s.m_measured[i] == f[i], "C06: other qubits' flags are unchanged");
    if (kind != 8 && kind != 9 && !threw) verif_assert(s.m_measured[q] == f[q], "C06: gates do not change flags");
    verif_reach();
}
