// C01: each built-in gate equals its defining unitary on the addressed qubit(s), identity elsewhere.
// Enumerated: P0 = n (register size), P1 = q (target / control), P2 = t (cx target), P3 = gate id.
#include "sim_common.h"

static void fill_state(QasmSimulator& s, int n, std::vector<cplx>& in) {
    for (int i = 0; i < n; ++i) s.allocateQubit();
    verif_assert(s.m_state.size() == (size_t{1} << n), "C01: state has 2^n amplitudes after n allocations");
    for (auto& a : s.m_state) a = cplx(verif_nd_double(), verif_nd_double());
    in = s.m_state;
}

static bool ceq(const cplx& a, const cplx& b) { return verif_feq(a.real(), b.real()) && verif_feq(a.imag(), b.imag()); }

// reference: out = (I x ... x U x ... x I) in, written index-wise with an explicit bit test
static void check_single(const QasmSimulator& s, const std::vector<cplx>& in, int q, const cplx U[4], const char* msg) {
    size_t bit = size_t{1} << q;
    for (size_t i = 0; i < in.size(); ++i) {
        size_t i0 = i & ~bit, i1 = i | bit;
        cplx want = (i & bit) ? (U[2] * in[i0] + U[3] * in[i1]) : (U[0] * in[i0] + U[1] * in[i1]);
        verif_assert(ceq(s.m_state[i], want), msg);
    }
}

extern "C" void harness_gate1() {
    int n = verif_param(0), q = verif_param(1), g = verif_param(3);
    QasmSimulator s(false);
    std::vector<cplx> in;
    fill_state(s, n, in);
    double t = verif_nd_double();
    cplx U[4];
    const double k = 1 / std::sqrt(2.0);
    switch (g) {
        case 0: s.h(q); U[0] = k; U[1] = k; U[2] = k; U[3] = -k; break;
        case 1: s.x(q); U[0] = 0; U[1] = 1; U[2] = 1; U[3] = 0; break;
        case 2: s.y(q); U[0] = 0; U[1] = cplx(0, -1); U[2] = cplx(0, 1); U[3] = 0; break;
        case 3: s.z(q); U[0] = 1; U[1] = 0; U[2] = 0; U[3] = -1; break;
        case 4: { s.rx(q, t); double c = std::cos(t / 2), sn = std::sin(t / 2);
                  U[0] = c; U[1] = cplx(0, -sn); U[2] = cplx(0, -sn); U[3] = c; break; }
        case 5: { s.ry(q, t); double c = std::cos(t / 2), sn = std::sin(t / 2);
                  U[0] = c; U[1] = -sn; U[2] = sn; U[3] = c; break; }
        case 6: { s.rz(q, t);  // diag(e^{-it/2}, e^{+it/2}) with e^{iy} as the library exponential
                  U[0] = std::exp(cplx(0, -t / 2)); U[1] = 0; U[2] = 0; U[3] = std::exp(cplx(0, t / 2)); break; }
        default: { s.rz(q, t);  // same, with e^{iy} spelled out as cos y + i sin y (independent of cexp)
                  double c = std::cos(t / 2), sn = std::sin(t / 2);
                  U[0] = cplx(c, -sn); U[1] = 0; U[2] = 0; U[3] = cplx(c, sn); break; }
    }
    verif_assert(s.m_state.size() == in.size(), "C01: gate keeps the state length");
    check_single(s, in, q, U, "C01: single-qubit gate equals its unitary on every amplitude");
    verif_reach();
}

extern "C" void harness_cx() {
    int n = verif_param(0), c = verif_param(1), t = verif_param(2);
    QasmSimulator s(false);
    std::vector<cplx> in;
    fill_state(s, n, in);
    s.cx(c, t);
    verif_assert(s.m_state.size() == in.size(), "C01: cx keeps the state length");
    for (size_t i = 0; i < in.size(); ++i) {
        size_t src = ((i >> c) & 1) ? (i ^ (size_t{1} << t)) : i;
        verif_assert(std::memcmp(&s.m_state[i], &in[src], sizeof(cplx)) == 0, "C01: cx is the permutation i -> i xor (bit_c(i) << t)");
    }
    verif_reach();
}

// Memory-safety twins: same calls, no functional assertion (run bit-precisely with all pointer checks on).
extern "C" void harness_gate1_mem() {
    int n = verif_param(0), q = verif_param(1), g = verif_param(3);
    QasmSimulator s(false);
    for (int i = 0; i < n; ++i) s.allocateQubit();
    double t = verif_nd_double();
    switch (g) {
        case 0: s.h(q); break;
        case 1: s.x(q); break;
        case 2: s.y(q); break;
        case 3: s.z(q); break;
        case 4: s.rx(q, t); break;
        case 5: s.ry(q, t); break;
        default: s.rz(q, t); break;
    }
    verif_assert(s.m_state.size() == (size_t{1} << n), "C01: state length unchanged");
    verif_reach();
}
extern "C" void harness_cx_mem() {
    int n = verif_param(0), c = verif_param(1), t = verif_param(2);
    QasmSimulator s(false);
    for (int i = 0; i < n; ++i) s.allocateQubit();
    s.cx(c, t);
    verif_assert(s.m_state.size() == (size_t{1} << n), "C01: state length unchanged");
    verif_reach();
}
