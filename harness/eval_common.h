// Common preamble for harnesses over the evaluator TU (unity include of the real sources).
#pragma once
#include <array>
#include <atomic>
#include <cmath>
#include <complex>
#include <condition_variable>
#include <cstring>
#include <functional>
#include <iostream>
#include <memory>
#include <mutex>
#include <optional>
#include <random>
#include <sstream>
#include <stdexcept>
#include <string>
#include <thread>
#include <unordered_map>
#include <utility>
#include <vector>
#include "verif.h"
static int g_draws = 0;
static double g_draw_value[8];
template <>
double std::generate_canonical<double, 53, std::mt19937>(std::mt19937&) {
    double r = g_draws < 8 ? g_draw_value[g_draws] : 0.0;
    ++g_draws;
    return r;
}
#define private public
#include VERIF_SIM_CPP
#include VERIF_BUILTINS_CPP
#include VERIF_EVAL_CPP
#undef private
using namespace bloch::runtime;
using namespace bloch::compiler;
using bloch::support::BlochError;
using bloch::support::ErrorCategory;
