// C20: self-update decisions - pure helpers of update_manager.cpp (file-local, reached by unity inclusion).
#include <cstring>
#include <string>
#include "verif.h"
#include VERIF_UPDATE_CPP
using namespace bloch::update;

// Version strings are enumerated, not symbolic: one symbolic byte inside a std::string that is then scanned, erased,
// substr'ed and handed to std::stoi makes every later length/position symbolic (no verdict in 300 s, 12 GB).
static const char* const kVersions[] = {
    "1.2.3", "v1.2.3", "1.2.4", "1.3.0", "2.0.0", "v2.0.0", "1.2", "1", "v10.0.1", "1.10.0", "1.9.9", "0.0.0",
    "1.2.3-rc1", "1.2.3.4", "v1.2.x", "1..2", "", "v", "latest", "x1.2.3", " 1.2.3", "1.2.3 ", "V1.2.3", "01.002.0003",
    "2147483647.0.0", "2147483648.0.0", "9999999999.1.1", "1.99999999999.0", "v1.2.99999999999999999999"};
static const int kNumVersions = sizeof(kVersions) / sizeof(kVersions[0]);
static std::string pick_version(int k) { return std::string(kVersions[k]); }

// independent reference: optional 'v', then up to three dot-separated digit runs; values as 64-bit
struct RefVer { long long c[3]; int n; };
static RefVer ref_parse(const std::string& s) {
    RefVer r{{0, 0, 0}, 0};
    size_t i = 0;
    if (i < s.size() && s[i] == 'v') ++i;
    for (int k = 0; k < 3; ++k) {
        size_t st = i;
        long long v = 0;
        for (size_t j = 0; j < 12 && i < s.size() && s[i] >= '0' && s[i] <= '9'; ++j) { v = v * 10 + (s[i] - '0'); ++i; }
        if (st == i) break;
        r.c[k] = v;
        r.n = k + 1;
        if (i >= s.size() || s[i] != '.') break;
        ++i;
    }
    return r;
}

// (1)+(2): parseSemVer never lets an exception escape, and agrees with the reference.  P0 = length, P1 = alphabet.
extern "C" void harness_parse() {
    std::string s = pick_version(verif_param(0));
    bool threw = false;
    SemVer v;
    try {
        v = parseSemVer(s);
    } catch (...) {
        threw = true;
    }
    verif_assert(!threw, "C20: parsing a version string never raises (no crash on garbage or huge numbers)");
    if (!threw) {
        RefVer r = ref_parse(s);
        bool fits = r.c[0] <= 2147483647LL && r.c[1] <= 2147483647LL && r.c[2] <= 2147483647LL;
        if (fits) {
            verif_assert(v.valid == (r.n > 0), "C20: a version is valid exactly when it starts (after an optional v) with a digit run");
            if (v.valid)
                verif_assert(v.major == r.c[0] && v.minor == r.c[1] && v.patch == r.c[2],
                             "C20: (major, minor, patch) are the decimal values of the first three dot-separated digit runs");
        } else {
            // a component that does not fit the representation: the string must be reported as unparsable (never half-parsed)
            verif_assert(!v.valid, "C20: a version with an unrepresentable component is not valid");
        }
    }
    verif_reach();
}

// (3): compareSemVer is the sign of the lexicographic comparison: antisymmetric, transitive, 0 iff equal.
extern "C" void harness_compare() {
    SemVer a{verif_nd_int(), verif_nd_int(), verif_nd_int(), true};
    SemVer b{verif_nd_int(), verif_nd_int(), verif_nd_int(), true};
    SemVer c{verif_nd_int(), verif_nd_int(), verif_nd_int(), true};
    int ab = compareSemVer(a, b), ba = compareSemVer(b, a), bc = compareSemVer(b, c), ac = compareSemVer(a, c);
    verif_assert(ab == -1 || ab == 0 || ab == 1, "C20: compare yields a sign");
    verif_assert(ab == -ba, "C20: compare is antisymmetric");
    verif_assert((ab == 0) == (a.major == b.major && a.minor == b.minor && a.patch == b.patch), "C20: 0 exactly for equal triples");
    if (ab <= 0 && bc <= 0) verif_assert(ac <= 0, "C20: compare is transitive");
    if (ab < 0 && bc <= 0) verif_assert(ac < 0, "C20: compare is transitive (strict)");
    int want = a.major != b.major ? (a.major < b.major ? -1 : 1) : a.minor != b.minor ? (a.minor < b.minor ? -1 : 1)
               : a.patch != b.patch ? (a.patch < b.patch ? -1 : 1) : 0;
    verif_assert(ab == want, "C20: compare is numeric, most significant component first");
    // label
    if (ab < 0) {
        std::string lab = changeLabel(a, b);
        const char* w = b.major > a.major ? "major" : b.minor > a.minor ? "minor" : "patch";
        verif_assert(lab == w, "C20: the change label names the first component that grew");
    }
    verif_reach();
}

// (4): hasLatest / notice decision on symbolic strings.  P0 = len(cur), P1 = len(lat).
extern "C" void harness_decide() {
    std::string cur = pick_version(verif_param(0)), lat = pick_version(verif_param(1));
    RefVer rc = ref_parse(cur), rl = ref_parse(lat);
    auto fits = [](const RefVer& r) { return r.c[0] <= 2147483647LL && r.c[1] <= 2147483647LL && r.c[2] <= 2147483647LL; };
    if (!fits(rc) || !fits(rl)) { verif_reach(); return; }  // unrepresentable components: only "never raises" is claimed (harness_parse)
    bool both = rc.n > 0 && rl.n > 0;
    bool newer = both && (rl.c[0] != rc.c[0] ? rl.c[0] > rc.c[0] : rl.c[1] != rc.c[1] ? rl.c[1] > rc.c[1] : rl.c[2] > rc.c[2]);
    bool hl = hasLatest(cur, lat);
    verif_assert(hl == (both && !newer), "C20: 'already latest' exactly when both versions parse and the release is not newer");
    // notice: window expired is supplied by symbolic clocks
    UpdateCache cache;
    // clocks as raw tick counts (no unit conversion inside the query: multiplications by 1e9 stall the SAT reduction)
    const long long kWindowTicks = std::chrono::duration_cast<Clock::duration>(std::chrono::hours(72)).count();
    long long t_last = (long long)verif_nd_u64(), t_now = (long long)verif_nd_u64();
    verif_assume(t_last >= 0 && t_last < (1LL << 61) && t_now >= t_last && t_now < (1LL << 61));
    cache.lastNotified = Clock::time_point(Clock::duration(t_last));
    Clock::time_point now = Clock::time_point(Clock::duration(t_now));
    bool printed = maybePrintNotice(lat, cur, now, cache);
    bool expired = (t_now - t_last) >= kWindowTicks;
    verif_assert(printed == (!lat.empty() && expired && newer), "C20: a notice appears exactly for a strictly newer, parsable release once the 72 h window has passed");
    if (printed) verif_assert(cache.lastNotified == now, "C20: printing a notice restarts the 72 h window");
    else verif_assert(cache.lastNotified == Clock::time_point(Clock::duration(t_last)), "C20: no notice leaves the window alone");
    verif_reach();
}

// notice throttle over three consecutive invocations with non-decreasing clocks: at most one notice per 72 h window
extern "C" void harness_window() {
    UpdateCache cache;
    const long long kWindowTicks = std::chrono::duration_cast<Clock::duration>(std::chrono::hours(72)).count();
    long long t0 = (long long)verif_nd_u64();
    verif_assume(t0 >= 0 && t0 < (1LL << 60));
    cache.lastNotified = Clock::time_point(Clock::duration(t0));
    long long t[3];
    long long prev = t0;
    bool printed[3];
    const int calls = verif_param(0);
    for (int i = 0; i < calls; ++i) {
        t[i] = (long long)verif_nd_u64();
        verif_assume(t[i] >= prev && t[i] < (1LL << 61));
        prev = t[i];
        printed[i] = maybePrintNotice("v2.0.0", "1.9.9", Clock::time_point(Clock::duration(t[i])), cache);
    }
    for (int i = 0; i < calls; ++i)
        for (int j = i + 1; j < calls; ++j)
            if (printed[i] && printed[j]) verif_assert(t[j] - t[i] >= kWindowTicks, "C20: two notices are at least 72 h apart");
    if (printed[0]) verif_assert(t[0] - t0 >= kWindowTicks, "C20: first notice only after the stored window expired");
    for (int i = 0; i < calls; ++i) {
        long long since = t[i] - t0;
        for (int j = 0; j < i; ++j) if (printed[j]) since = t[i] - t[j];
        verif_assert(printed[i] == (since >= kWindowTicks), "C20: a due notice is never withheld, an early one never shown");
    }
    verif_reach();
}
