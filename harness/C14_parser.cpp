// C14: the parser realises the documented precedence/associativity; C13: parser totality on short token streams.
#include <cstring>
#include <iostream>
#include <memory>
#include <optional>
#include <sstream>
#include <stdexcept>
#include <string>
#include <vector>
#include "verif.h"
#define private public
#include VERIF_PARSER_CPP
#undef private
using namespace bloch::compiler;
using bloch::support::BlochError;
using bloch::support::ErrorCategory;

// the 16 binary operators with the level docs/grammar.md assigns (higher binds tighter)
struct BinOp { TokenType t; int level; };
static const BinOp kBin[16] = {
    {TokenType::PipePipe, 1}, {TokenType::AmpersandAmpersand, 2}, {TokenType::Pipe, 3}, {TokenType::Caret, 4},
    {TokenType::Ampersand, 5}, {TokenType::EqualEqual, 6}, {TokenType::BangEqual, 6}, {TokenType::Greater, 7},
    {TokenType::Less, 7}, {TokenType::GreaterEqual, 7}, {TokenType::LessEqual, 7}, {TokenType::Plus, 8},
    {TokenType::Minus, 8}, {TokenType::Star, 9}, {TokenType::Slash, 9}, {TokenType::Percent, 9}};
static const TokenType kPrefix[3] = {TokenType::Minus, TokenType::Bang, TokenType::Tilde};
static const TokenType kPostfix[2] = {TokenType::PlusPlus, TokenType::MinusMinus};

// Operator KINDS are enumerated per query (a single symbolic operator kind makes the Pratt loop's dispatch symbolic and
// the query gives no verdict in 300 s; concrete kinds take 8 s).  What stays symbolic is every token's (line, column).
static int g_line[12], g_col[12];
static Token tk(TokenType t, const char* v, int idx) {
    g_line[idx] = verif_nd_int(); g_col[idx] = verif_nd_int();
    return Token{t, v, g_line[idx], g_col[idx]};
}
static bool at(const ASTNode* n, int idx) { return n && n->line == g_line[idx] && n->column == g_col[idx]; }

static bool is_var(const Expression* e, const char* name) {
    auto v = dynamic_cast<const VariableExpression*>(e);
    return v && v->name == name;
}
static const BinaryExpression* as_bin(const Expression* e, const char* op) {
    auto b = dynamic_cast<const BinaryExpression*>(e);
    return (b && b->op == op) ? b : nullptr;
}
static const UnaryExpression* as_un(const Expression* e, const char* op) {
    auto b = dynamic_cast<const UnaryExpression*>(e);
    return (b && b->op == op) ? b : nullptr;
}
static const PostfixExpression* as_post(const Expression* e, const char* op) {
    auto b = dynamic_cast<const PostfixExpression*>(e);
    return (b && b->op == op) ? b : nullptr;
}

// a o1 b o2 c   with o1, o2 symbolic over the 16 binary operators
extern "C" void harness_two_ops() {
    int i1 = verif_param(0), i2 = verif_param(1);
    std::vector<Token> ts = {tk(TokenType::Identifier, "a", 1), tk(kBin[i1].t, "o1", 2), tk(TokenType::Identifier, "b", 3),
                             tk(kBin[i2].t, "o2", 4), tk(TokenType::Identifier, "c", 5), tk(TokenType::Eof, "", 6)};
    Parser p(ts);
    std::unique_ptr<Expression> e;
    bool threw = false;
    try { e = p.parseExpression(); } catch (const BlochError&) { threw = true; }
    verif_assert(!threw, "C14: a chain of binary operators over identifiers is accepted");
    if (!threw) {
        verif_assert(p.m_current == 5, "C14: the whole expression is consumed");
        if (kBin[i2].level > kBin[i1].level) {  // tighter operator on the right groups first
            auto r = as_bin(e.get(), "o1");
            verif_assert(r && is_var(r->left.get(), "a"), "C14: a o1 (b o2 c) when o2 binds tighter");
            verif_assert(at(r, 2) && (!r || at(r->left.get(), 1)), "C14: nodes carry the position of their defining token, whatever it is");
            if (r) { auto in = as_bin(r->right.get(), "o2");
                     verif_assert(in && is_var(in->left.get(), "b") && is_var(in->right.get(), "c"), "C14: inner node is b o2 c"); }
        } else {  // same or lower level: left associative
            auto r = as_bin(e.get(), "o2");
            verif_assert(r && is_var(r->right.get(), "c"), "C14: (a o1 b) o2 c when o2 does not bind tighter (left associativity)");
            verif_assert(at(r, 4) && (!r || at(r->right.get(), 5)), "C14: nodes carry the position of their defining token, whatever it is");
            if (r) { auto in = as_bin(r->left.get(), "o1");
                     verif_assert(in && is_var(in->left.get(), "a") && is_var(in->right.get(), "b"), "C14: inner node is a o1 b"); }
        }
    }
    verif_reach();
}

// u a op b  and  a p op b  and  u a p   (prefix between binary and postfix)
extern "C" void harness_unary_mix() {
    int shape = verif_param(0), iu = verif_param(1), ip = verif_param(2), ib = verif_param(3);
    std::vector<Token> ts;
    if (shape == 0) ts = {tk(kPrefix[iu], "u", 1), tk(TokenType::Identifier, "a", 2), tk(kBin[ib].t, "o", 3), tk(TokenType::Identifier, "b", 4), tk(TokenType::Eof, "", 5)};
    else if (shape == 1) ts = {tk(TokenType::Identifier, "a", 1), tk(kPostfix[ip], "p", 2), tk(kBin[ib].t, "o", 3), tk(TokenType::Identifier, "b", 4), tk(TokenType::Eof, "", 5)};
    else if (shape == 2) ts = {tk(kPrefix[iu], "u", 1), tk(TokenType::Identifier, "a", 2), tk(kPostfix[ip], "p", 3), tk(TokenType::Eof, "", 4)};
    else ts = {tk(kPrefix[iu], "u", 1), tk(kPrefix[ip], "w", 2), tk(TokenType::Identifier, "a", 3), tk(kBin[ib].t, "o", 4), tk(TokenType::Identifier, "b", 5), tk(TokenType::Eof, "", 6)};
    Parser p(ts);
    std::unique_ptr<Expression> e;
    bool threw = false;
    try { e = p.parseExpression(); } catch (const BlochError&) { threw = true; }
    verif_assert(!threw, "C14: prefix/postfix/binary mixes over identifiers are accepted");
    if (!threw) {
        verif_assert(p.m_current + 1 == ts.size(), "C14: the whole expression is consumed");
        if (shape == 0) {
            auto r = as_bin(e.get(), "o");
            verif_assert(r && is_var(r->right.get(), "b"), "C14: (u a) o b: prefix binds tighter than every binary operator");
            if (r) { auto u = as_un(r->left.get(), "u"); verif_assert(u && is_var(u->right.get(), "a"), "C14: left operand is u a"); }
        } else if (shape == 1) {
            auto r = as_bin(e.get(), "o");
            verif_assert(r && is_var(r->right.get(), "b"), "C14: (a p) o b: postfix binds tighter than every binary operator");
            if (r) { auto q = as_post(r->left.get(), "p"); verif_assert(q && is_var(q->left.get(), "a"), "C14: left operand is a p"); }
        } else if (shape == 2) {
            auto u = as_un(e.get(), "u");
            verif_assert(u != nullptr, "C14: u (a p): postfix binds tighter than prefix");
            if (u) { auto q = as_post(u->right.get(), "p"); verif_assert(q && is_var(q->left.get(), "a"), "C14: operand is a p"); }
        } else {
            auto r = as_bin(e.get(), "o");
            verif_assert(r && is_var(r->right.get(), "b"), "C14: (u (w a)) o b");
            if (r) { auto u = as_un(r->left.get(), "u");
                     verif_assert(u != nullptr, "C14: outer prefix");
                     if (u) { auto w = as_un(u->right.get(), "w"); verif_assert(w && is_var(w->right.get(), "a"), "C14: nested prefix operators nest right"); } }
        }
    }
    verif_reach();
}

// ( a o1 b ) o2 c   and   a o1 ( b o2 c ): parentheses force the grouping, whatever the operators
extern "C" void harness_parens() {
    int shape = verif_param(0), i1 = verif_param(1), i2 = verif_param(2);
    std::vector<Token> ts;
    if (shape == 0) ts = {tk(TokenType::LParen, "(", 1), tk(TokenType::Identifier, "a", 2), tk(kBin[i1].t, "o1", 3), tk(TokenType::Identifier, "b", 4),
                          tk(TokenType::RParen, ")", 5), tk(kBin[i2].t, "o2", 6), tk(TokenType::Identifier, "c", 7), tk(TokenType::Eof, "", 8)};
    else ts = {tk(TokenType::Identifier, "a", 1), tk(kBin[i1].t, "o1", 2), tk(TokenType::LParen, "(", 3), tk(TokenType::Identifier, "b", 4),
               tk(kBin[i2].t, "o2", 5), tk(TokenType::Identifier, "c", 6), tk(TokenType::RParen, ")", 7), tk(TokenType::Eof, "", 8)};
    Parser p(ts);
    std::unique_ptr<Expression> e;
    bool threw = false;
    try { e = p.parseExpression(); } catch (const BlochError&) { threw = true; }
    verif_assert(!threw, "C14: parenthesised operands are accepted");
    if (!threw) {
        verif_assert(p.m_current == 7, "C14: the whole expression is consumed");
        if (shape == 0) {
            auto r = as_bin(e.get(), "o2");
            verif_assert(r && is_var(r->right.get(), "c"), "C14: (a o1 b) o2 c keeps the parenthesised group as left operand");
            if (r) { auto par = dynamic_cast<const ParenthesizedExpression*>(r->left.get());
                     verif_assert(par && as_bin(par->expression.get(), "o1"), "C14: the group is a o1 b"); }
        } else {
            auto r = as_bin(e.get(), "o1");
            verif_assert(r && is_var(r->left.get(), "a"), "C14: a o1 (b o2 c) keeps the parenthesised group as right operand");
            if (r) { auto par = dynamic_cast<const ParenthesizedExpression*>(r->right.get());
                     verif_assert(par && as_bin(par->expression.get(), "o2"), "C14: the group is b o2 c"); }
        }
    }
    verif_reach();
}

// assignment is right-associative and lowest: a = b o c  -> Assign(a, b o c);  a = b = c -> Assign(a, Assign(b, c));  a o b = c -> Parse error
extern "C" void harness_assign() {
    int shape = verif_param(0), ib = verif_param(1);
    std::vector<Token> ts;
    if (shape == 0) ts = {tk(TokenType::Identifier, "a", 1), tk(TokenType::Equals, "=", 2), tk(TokenType::Identifier, "b", 3), tk(kBin[ib].t, "o", 4), tk(TokenType::Identifier, "c", 5), tk(TokenType::Eof, "", 6)};
    else if (shape == 1) ts = {tk(TokenType::Identifier, "a", 1), tk(TokenType::Equals, "=", 2), tk(TokenType::Identifier, "b", 3), tk(TokenType::Equals, "=", 4), tk(TokenType::Identifier, "c", 5), tk(TokenType::Eof, "", 6)};
    else ts = {tk(TokenType::Identifier, "a", 1), tk(kBin[ib].t, "o", 2), tk(TokenType::Identifier, "b", 3), tk(TokenType::Equals, "=", 4), tk(TokenType::Identifier, "c", 5), tk(TokenType::Eof, "", 6)};
    Parser p(ts);
    std::unique_ptr<Expression> e;
    bool threw = false;
    try { e = p.parseExpression(); } catch (const BlochError& err) {
        threw = true;
        verif_assert(err.category == ErrorCategory::Parse, "C13: parser failures are Parse diagnostics");
    }
    if (shape == 2) {
        verif_assert(threw, "C14: a binary expression is not an assignment target");
    } else {
        verif_assert(!threw, "C14: assignments are accepted");
        if (!threw) {
            auto as = dynamic_cast<const AssignmentExpression*>(e.get());
            verif_assert(as && as->name == "a", "C14: assignment is the root (lowest precedence)");
            if (as && shape == 0) { auto r = as_bin(as->value.get(), "o"); verif_assert(r && is_var(r->left.get(), "b") && is_var(r->right.get(), "c"), "C14: value is b o c"); }
            if (as && shape == 1) { auto in = dynamic_cast<const AssignmentExpression*>(as->value.get());
                                    verif_assert(in && in->name == "b" && is_var(in->value.get(), "c"), "C14: assignment is right-associative"); }
        }
    }
    verif_reach();
}

// Annotation lists in front of a class member (Parser::parseAnnotations): P0 = arrangement.  Token positions symbolic.
// (Driving parse()/parseClassDeclaration for a whole class gives no verdict in 300 s even for `class A { }`.)
extern "C" void harness_annotations() {
    int arr = verif_param(0);
    std::vector<Token> ts;
    ts.reserve(12);
    int want = 0;
    const char* names[3] = {"", "", ""};
    auto AT = [&](TokenType t, const char* n) { ts.push_back(tk(TokenType::At, "@", 1)); ts.push_back(tk(t, n, 2)); names[want++] = n; };
    switch (arr) {
        case 0: AT(TokenType::Quantum, "quantum"); break;
        case 1: AT(TokenType::Tracked, "tracked"); break;
        case 2: AT(TokenType::Quantum, "quantum"); AT(TokenType::Tracked, "tracked"); break;
        case 3: AT(TokenType::Tracked, "tracked"); AT(TokenType::Quantum, "quantum"); break;
        default: AT(TokenType::Shots, "shots"); ts.push_back(tk(TokenType::LParen, "(", 3)); ts.push_back(tk(TokenType::IntegerLiteral, "5", 3)); ts.push_back(tk(TokenType::RParen, ")", 3)); break;
    }
    ts.push_back(tk(TokenType::Public, "public", 4));
    ts.push_back(tk(TokenType::Function, "function", 4));
    ts.push_back(tk(TokenType::Eof, "", 5));
    size_t consumed = ts.size() - 3;
    Parser p(std::move(ts));
    std::vector<std::unique_ptr<AnnotationNode>> anns;
    bool threw = false;
    try { anns = p.parseAnnotations(); } catch (const BlochError& e) {
        threw = true;
        verif_assert(e.category == ErrorCategory::Parse, "C13: parser failures are Parse diagnostics");
    }
    if (arr >= 4) {  // @shots configures main only (docs/language/annotations.md): rejected on a member, as a Parse diagnostic
        verif_assert(threw, "C16: @shots in front of a class member is rejected");
    } else {
        verif_assert(!threw, "C14: documented annotations in front of a class member are accepted");
    }
    if (!threw) {
        verif_assert((int)anns.size() == want, "C14: one node per annotation");
        for (int i = 0; i < want && i < (int)anns.size(); ++i) {
            verif_assert(anns[i]->name == names[i], "C14: annotations keep their order and names");
            bool isVar = std::strcmp(names[i], "tracked") == 0;
            verif_assert(anns[i]->isVariableAnnotation == isVar && anns[i]->isFunctionAnnotation == !isVar, "C14: annotation kind recorded");
        }
        verif_assert(p.m_current == consumed, "C14: exactly the annotation tokens are consumed");
    }
    for (auto& a : anns) (void)a.release();
    verif_reach();
}
