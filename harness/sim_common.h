// Common preamble for harnesses over the simulator TU: real source included unity-style.
#pragma once
#include <array>
#include <cmath>
#include <complex>
#include <cstring>
#include <random>
#include <sstream>
#include <stdexcept>
#include <string>
#include <vector>
#include "verif.h"
// The RNG draw made by QasmSimulator::measure/reset becomes one harness-controlled value per call.
static int g_draws = 0;
static double g_draw_value[4];
template <>
double std::generate_canonical<double, 53, std::mt19937>(std::mt19937&) {
    double r = g_draws < 4 ? g_draw_value[g_draws] : 0.0;
    ++g_draws;
    return r;
}
#define private public
#include VERIF_SIM_CPP
#undef private
using bloch::runtime::QasmSimulator;
using bloch::support::BlochError;
using bloch::support::ErrorCategory;
typedef std::complex<double> cplx;
