// C07 (documented semantics of the expression kernel) and C12 (no crash on extreme values): RuntimeEvaluator::eval on a
// hand-built BinaryExpression over two variables whose VALUES are symbolic.  Enumerated: P0 = operator, P1/P2 = operand types.
#include "eval_common.h"

static const char* const kOps[16] = {"+", "-", "*", "/", "%", "==", "!=", "<", ">", "<=", ">=", "&&", "||", "&", "|", "^"};
static const Value::Type kTypes[5] = {Value::Type::Int, Value::Type::Long, Value::Type::Bit, Value::Type::Boolean, Value::Type::Float};

static Value sym_value(Value::Type t) {
    Value v;
    v.type = t;
    switch (t) {
        case Value::Type::Int: v.intValue = verif_nd_int(); break;
        case Value::Type::Long: v.longValue = (std::int64_t)verif_nd_u64(); break;
        case Value::Type::Bit: v.bitValue = verif_nd_bool() ? 1 : 0; break;
        case Value::Type::Boolean: v.boolValue = verif_nd_bool(); break;
        default: v.floatValue = verif_nd_double(); break;
    }
    return v;
}
static bool is_intlike(Value::Type t) { return t == Value::Type::Int || t == Value::Type::Long || t == Value::Type::Bit; }
static std::int64_t as_i64(const Value& v) {
    return v.type == Value::Type::Long ? v.longValue : v.type == Value::Type::Int ? (std::int64_t)v.intValue : (std::int64_t)v.bitValue;
}

extern "C" void harness_binop() {
    const int opi = verif_param(0);
    const Value::Type lt = kTypes[verif_param(1)], rt = kTypes[verif_param(2)];
    RuntimeEvaluator ev(false);
    ev.beginScope();
    Value a = sym_value(lt), b = sym_value(rt);
    // '/' and '%' raise for a zero divisor: a symbolic divisor makes the whole error path (exception object, unwinding
    // through eval's cleanups) symbolic - no verdict in 900 s.  The divisor is then enumerated (P3), the dividend stays symbolic.
    static const long long kDiv[8] = {0, 0, 1, -1, 2, 7, INT64_MIN, INT64_MAX};
    if (verif_param(3) > 0) {
        long long d = kDiv[verif_param(3)];
        if (rt == Value::Type::Int) b.intValue = (int)(d == INT64_MIN ? INT32_MIN : d == INT64_MAX ? INT32_MAX : d);
        else if (rt == Value::Type::Long) b.longValue = d;
        else if (rt == Value::Type::Bit) b.bitValue = (int)(d & 1);
        else if (rt == Value::Type::Float) b.floatValue = (double)(d == INT64_MIN ? -2.5 : d == INT64_MAX ? 0.5 : d);
    }
    ev.m_env.back()["a"] = {a, false, true};
    ev.m_env.back()["b"] = {b, false, true};
    BinaryExpression bin(kOps[opi], std::make_unique<VariableExpression>("a"), std::make_unique<VariableExpression>("b"));
    bin.line = verif_nd_int();
    bin.column = verif_nd_int();
    bool threw = false;
    Value r;
    try {
        r = ev.eval(&bin);
    } catch (const BlochError& e) {
        threw = true;
        verif_assert(e.category == ErrorCategory::Runtime, "C12: an evaluation failure is a Bloch Runtime error");
        verif_assert(e.line == bin.line && e.column == bin.column, "C12: the Runtime error is located at the expression");
    }
    const std::string op = kOps[opi];
    const bool ints = is_intlike(lt) && is_intlike(rt);
    const bool arith_types = (lt == Value::Type::Int || lt == Value::Type::Long || lt == Value::Type::Float) &&
                             (rt == Value::Type::Int || rt == Value::Type::Long || rt == Value::Type::Float);
    const bool anyFloat = lt == Value::Type::Float || rt == Value::Type::Float;
    const bool anyLong = lt == Value::Type::Long || rt == Value::Type::Long;
    const std::int64_t x = as_i64(a), y = as_i64(b);
    if (arith_types && (op == "+" || op == "-" || op == "*")) {
        verif_assert(!threw, "C07: + - * are defined on int/long/float");
        if (!threw) {
            verif_assert(r.type == (anyFloat ? Value::Type::Float : anyLong ? Value::Type::Long : Value::Type::Int),
                         "C07: int -> long -> float promotion of the result type");
            if (!anyFloat && !(op == "*" && anyLong)) {  // long*long against a 128-bit reference product is a multiplier-equivalence
                                                        // problem the SAT back end does not finish; only its type is checked
                __int128 exact = op == "+" ? (__int128)x + y : op == "-" ? (__int128)x - y : (__int128)x * y;
                bool inRange = anyLong ? (exact >= INT64_MIN && exact <= INT64_MAX) : (exact >= INT32_MIN && exact <= INT32_MAX);
                if (inRange)  // outside the representable range the documentation fixes nothing
                    verif_assert((anyLong ? (__int128)r.longValue : (__int128)r.intValue) == exact, "C07: integer + - * give the mathematical result while it is representable");
            }
        }
    } else if (arith_types && op == "/") {
        bool zero = anyFloat ? (rt == Value::Type::Float ? b.floatValue == 0.0 : y == 0) : y == 0;
        verif_assert(threw == zero, "C07: '/' raises a Runtime error exactly for a zero divisor");
        if (!threw) verif_assert(r.type == Value::Type::Float, "C07: '/' always produces a float");
    } else if (ints && !( lt == Value::Type::Bit && rt == Value::Type::Bit) && op == "%") {
        verif_assert(threw == (y == 0), "C07: '%' raises a Runtime error exactly for a zero divisor");
        if (!threw) {
            verif_assert(r.type == (anyLong ? Value::Type::Long : Value::Type::Int), "C07: '%' is an integer operation with int -> long promotion");
            std::int64_t want = (y == -1) ? 0 : x % y;   // mathematically 0 for a divisor of -1, also for the most negative dividend
            verif_assert((anyLong ? r.longValue : (std::int64_t)r.intValue) == want, "C07: '%' is the truncated remainder");
        }
    } else if (arith_types && !anyFloat && (op == "==" || op == "!=" || op == "<" || op == ">" || op == "<=" || op == ">=")) {
        verif_assert(!threw, "C07: comparisons are defined on numbers");
        if (!threw) {
            bool want = op == "==" ? x == y : op == "!=" ? x != y : op == "<" ? x < y : op == ">" ? x > y : op == "<=" ? x <= y : x >= y;
            verif_assert(r.type == Value::Type::Boolean && r.boolValue == want, "C07: comparisons return the boolean of the mathematical comparison");
        }
    } else if (arith_types && anyFloat && (op == "==" || op == "!=" || op == "<" || op == ">" || op == "<=" || op == ">=")) {
        verif_assert(!threw, "C07: comparisons are defined on numbers");
        if (!threw) {
            double fx = lt == Value::Type::Float ? a.floatValue : (double)x, fy = rt == Value::Type::Float ? b.floatValue : (double)y;
            bool want = op == "==" ? fx == fy : op == "!=" ? fx != fy : op == "<" ? fx < fy : op == ">" ? fx > fy : op == "<=" ? fx <= fy : fx >= fy;
            verif_assert(r.type == Value::Type::Boolean && r.boolValue == want, "C07: mixed comparisons are made after promotion to float");
        }
    } else if ((lt == Value::Type::Boolean || lt == Value::Type::Bit) && (rt == Value::Type::Boolean || rt == Value::Type::Bit) &&
               (lt == Value::Type::Boolean || rt == Value::Type::Boolean) && (op == "&&" || op == "||")) {
        verif_assert(!threw, "C07: && and || are defined on boolean/bit");
        if (!threw) {
            bool p = lt == Value::Type::Boolean ? a.boolValue : a.bitValue != 0, q = rt == Value::Type::Boolean ? b.boolValue : b.bitValue != 0;
            verif_assert(r.type == Value::Type::Boolean && r.boolValue == (op == "&&" ? (p && q) : (p || q)), "C07: logical operators");
        }
    } else if (lt == Value::Type::Bit && rt == Value::Type::Bit && (op == "&" || op == "|" || op == "^")) {
        verif_assert(!threw, "C07: bitwise operators are defined on bit");
        if (!threw) {
            int want = op == "&" ? (a.bitValue & b.bitValue) : op == "|" ? (a.bitValue | b.bitValue) : (a.bitValue ^ b.bitValue);
            verif_assert(r.type == Value::Type::Bit && r.bitValue == want, "C07: bitwise operators on bit");
        }
    }
    // every other combination: only "value or located Runtime error, never a trap / foreign exception" (C12) is claimed
    verif_reach();
}
