// Interface between C++ harness translation units and the checking back ends.
// Under ir2c+CBMC these are provided by models/verif_rt.h; in native replays by replay/native_rt.cpp.
#pragma once
#include <cstdint>
extern "C" {
std::uint64_t verif_nd_u64();
std::uint32_t verif_nd_u32();
int verif_nd_int();
std::uint8_t verif_nd_u8();
bool verif_nd_bool();
double verif_nd_double();          // a finite double of moderate magnitude (see verif_rt.h)
double verif_nd_unit();            // a double in [0,1)
int verif_param(int i);            // enumerated (non-symbolic) parameter i of the current query
void verif_assume(bool c);
void verif_assert(bool c, const char* msg);
bool verif_feq(double a, double b);  // solver: same term (bit-equal, -0==+0); native: |a-b| <= 1e-9
bool verif_native();               // false under the solver, true in native replays
void verif_reach();                // reachability witness (fails under -DWITNESS)
void verif_note(int tag, std::uint64_t v);  // records an observable for replays/validation
}
