#!/usr/bin/env python3
"""writes MANIFEST.json from the table below (kept in one place so the manifest always validates)"""
import json, os
here = os.path.dirname(os.path.dirname(os.path.abspath(__file__)))
TECH_SMT = 'bounded symbolic execution of the real TU (clang IR -> ir2c -> CBMC), FP as commutative uninterpreted functions, SMT portfolio (cvc5/z3) decides; native ASan/UBSan replay confirms'
TECH_SAT = 'bounded symbolic execution of the real TU (clang IR -> ir2c -> CBMC SAT back end) with unwinding assertions; native ASan/UBSan replay confirms'
CHECKS = {
    'C01': dict(text='Every built-in gate is compared, amplitude by amplitude, with (I x..x U x..x I)·in for ALL input vectors and angles at once, '
                     'per enumerated (n, q) / (n, control, target); cx as an exact index permutation. Bounded: n<=3 quick, n<=5 thorough.',
                note='FP +,*,/ abstracted to sign-separated commutative uninterpreted functions (equal terms => equal doubles); finite inputs; '
                     'cos/sin/sqrt uninterpreted; libstdc++ vector/string code is the real code, operator new never fails; error text formatting stubbed.',
                ref='DESIGN.md §2 C01', tech=TECH_SMT),
}
CHECKS.update({
    'C02': dict(text='QasmSimulator::measure from an arbitrary state: outcome = (draw < P(1)) with P(1) the summed squared norms, exactly one draw, '
                     'other branch exactly zero, survivors divided by sqrt(P(outcome)), flag set; all states and draws per (n,q), n<=3 quick / 4 thorough.',
                note='FP abstracted to commutative uninterpreted functions, comparisons exact; RNG draw supplied by the harness; evaluator-side storing of the bit not covered yet.',
                ref='DESIGN.md §2 C02', tech=TECH_SMT),
    'C03': dict(text='Inductive step: allocateQubit from an arbitrary n-qubit state (low half kept bit-for-bit, high half zero, index n, flags), and '
                     'measure/reset/gates keep 2^n amplitudes with every access in bounds, also for out-of-range indices (refused).',
                note='unit norm within tolerance is NOT decided (follows on paper from C01/C02/C04); evaluator handle bookkeeping pending; heap zero-initialised in the model.',
                ref='DESIGN.md §2 C03', tech=TECH_SMT),
    'C04': dict(text='QasmSimulator::reset from an arbitrary (entangled, unmeasured) state must be the measure-then-flip channel: sampled outcome, '
                     'normalised projection moved to target=0; a reset that draws nothing is only accepted when one branch is empty.',
                note='locality of the reduced state follows on paper from the channel form; FP abstracted; found and fixed: post-selecting reset (8c32c2f).',
                ref='DESIGN.md §2 C04', tech=TECH_SMT),
    'C05': dict(text='Every logging site of the simulator with the real std::string code: exactly one byte-exact line per performed operation, none for refused '
                     'ones or with logging off, order kept, getQasm = header + qreg/creg + ops, two-qubit operands distinct; every operand index in -1..n.',
                note='control flow is concrete per query (kind, operands, logging enumerated); angle text replaced by a token; replay on an independent interpreter and CLI file output outside. Found and fixed: cx(q,q) (94ddccb).',
                ref='DESIGN.md §2 C05', tech=TECH_SAT),
    'C06': dict(text='Simulator-level flag state machine from arbitrary symbolic flags: an operation is refused exactly when an operand is marked measured, '
                     'refusal leaves state/log/RNG untouched, measure marks, reset clears, other flags unchanged.',
                note='evaluator access paths (array element, parameter, field) not covered yet; FP havoc.',
                ref='DESIGN.md §2 C06', tech=TECH_SAT),
})
CHECKS.update({
    'C13': dict(text='Lexer totality as an inductive step: from any state, on any bytes, scanToken/skipWhitespace terminate inside the unwinding bound, read only '
                     'inside an exactly-sized source buffer and return or raise exactly one Lexical diagnostic with a 1-based position.',
                note='first byte of each window concrete per query (one per dispatch class quick, all 256 thorough), the others symbolic; parser/analyser/import totality not covered yet.',
                ref='DESIGN.md §2 C13', tech=TECH_SAT),
    'C15': dict(text='Lexer exactness as an inductive step: from ANY (line,column) one scanToken yields the source bytes at the cursor, positioned at the pre-state, and leaves '
                     'counters describing the next byte; skipWhitespace skips exactly whitespace and // comments; keyword kinds <=> spellings. By induction every token of every source is exact.',
                note='tokenize()\'s loop is tied in on paper + the empty-source query (a fully symbolic tokenize gives no verdict in 600 s); windows <= 4 bytes quick / 6 thorough. Found and fixed: newline inside string/char literals (8f62bbe).',
                ref='DESIGN.md §2 C15', tech=TECH_SAT),
    'C20': dict(text='Real updater helpers: compareSemVer/changeLabel over symbolic triples (sign, antisymmetry, transitivity, numeric order), hasExpired/maybePrintNotice over symbolic 64-bit clocks '
                     '(notice iff strictly newer, parsable and 72 h passed; never two within 72 h), parseSemVer/hasLatest on 29 enumerated version shapes incl. huge components.',
                note='version strings are enumerated, not symbolic; performSelfUpdate call site, parseChecksum, env switches, file/HTTP code outside. Found and fixed: stoi overflow escaping parseSemVer (21f8240).',
                ref='DESIGN.md §2 C20', tech=TECH_SAT),
})
CHECKS.update({
    'C14': dict(text='Real Pratt parser on short token streams: for binary-operator pairs, prefix/postfix/binary mixes, parenthesised groups and assignment chains the returned tree '
                     'has the shape docs/grammar.md dictates and nodes carry their defining token\'s (symbolic) position; annotation lists in front of class members are accepted in every documented order.',
                note='operator kinds are enumerated per query (a symbolic kind gives no verdict), token positions are symbolic; statements/declarations/whole classes are outside (parse() on `class A { }` gives no verdict in 300 s). Found and fixed: @quantum on class members (fcaace1).',
                ref='DESIGN.md §2 C14', tech=TECH_SAT),
})
CHECKS.update({
    'C07': dict(text='Real RuntimeEvaluator::eval on one BinaryExpression over two variables whose VALUES are symbolic over the full 32/64-bit range: result type (int->long->float promotion, / always float, % integer) '
                     'and value against a reference written from docs/language/language-guide.md, zero divisor = located Runtime error.',
                note='operator, operand types and (for / %) the divisor constant are enumerated per query; float results are havoc (only tags/zero tests/comparisons checked); statements, control flow, calls, casts, strings, arrays, echo text not encoded.',
                ref='DESIGN.md §2 C07', tech=TECH_SAT),
    'C09': dict(text='Real callMethod -> exec -> eval -> lookup/assign on a hand-built method body: a bare name must use the receiver\'s field whatever the caller\'s locals are called (renaming the caller\'s local w -> v changes nothing); values symbolic.',
                note='one caller scope, one field; colliding/non-colliding name and read/write enumerated. On the pinned tree the colliding cases FAIL: recorded as known finding C09-caller-local-shadows-field (repair not small).',
                ref='DESIGN.md §2 C09, §5', tech=TECH_SAT),
    'C12': dict(text='CBMC built-in checks (division by zero, MIN/-1 on sdiv/srem, invalid/freed/out-of-bounds dereference) and "only a located Runtime BlochError may escape" over the real eval() of one binary expression with full-range symbolic operands and divisors {0,1,-1,2,7,MIN,MAX}, and over the real buildClassTable for a class with 1..3 virtual overloads of one name (every dispatch-table entry dereferenced), and over eval of one LiteralExpression for 10 boundary texts (int up to and beyond INT_MAX, long, bit).',
                note='expression kernel and non-generic dispatch-table construction only: float literals, teardown after error, indices, null references, generic instantiations are NOT encoded. Found and fixed: INT64_MIN % -1L SIGFPE (bbb974b); dangling dispatch entries with overloaded virtual methods (c53bee3); raw stoi exception for an int literal above INT_MAX (a7b1256).',
                ref='DESIGN.md §2 C12', tech=TECH_SAT),
    'C17': dict(text='One endScope() step of the real evaluator from arbitrary prior counts and arbitrary last-measurement records: a tracked qubit contributes exactly one outcome (last measurement or ?), an untracked one nothing, other keys untouched.',
                note='qubit[] entries are in the thorough tier only and may be inconclusive (900 s); CLI shot loop, @shots precedence, probabilities, echo policy (cli.cpp) and tracked object fields are outside.',
                ref='DESIGN.md §2 C17', tech=TECH_SAT),
})
CHECKS.update({
    'C10': dict(text='Real SemanticAnalyser::analyse on two-function programs in both declaration orders (main calling gg with 0..2 arguments, matching or one too many): the verdict is a function of the content only; node positions symbolic. Real RuntimeEvaluator::buildClassTable on a two-class hierarchy in both orders and a three-class chain in all six orders: layouts, slots and dispatch entries are order-independent.',
                note='programs enumerated; class order inside the analyser, generic bases, module merge order, >2 function declarations and printed output are outside. Found and fixed: forward calls checked against an empty signature (6269c7c); derived-before-base classes got an empty inherited layout (a0e74ab).',
                ref='DESIGN.md §2 C10', tech=TECH_SAT),
    'C16': dict(text='Real SemanticAnalyser::analyse on hand-built programs, each rule instance in each enumerated position with its violation-free twin: use before declaration (initialiser, assignment, echo, condition), '
                     'writes to a final local (AssignmentStatement, PostfixExpression, AssignmentExpression), primitive initialiser compatibility (7x7 types, int->long widening only), reference-type compatibility in initialisers and assignments (int/Foo/Sub <- int literal, new Foo/Bar/Sub, null; Sub extends Foo, Bar unrelated).',
                note='four rule kernels of the long list; visibility, void results, static/abstract instantiation, this/super in static context, annotations, final fields, arrays/generics, argument and return positions are outside; node positions symbolic, programs enumerated. Found and fixed: class-typed values were never type-checked in initialisers/assignments (e143a19).',
                ref='DESIGN.md §2 C16', tech=TECH_SAT),
})
CHECKS.update({
    'C08': dict(text='Real buildClassTable + eval(member CallExpression) + findMethod + callMethod on one hand-built hierarchy (A <- B <- C, two overloads of m, super.m()): for every (static class, dynamic class, call) combination the body that runs is the most-derived override of the dynamic class for the overload matching the argument (exact match over widening at any level), super.m() runs the base version on the same receiver, also from inside a virtually dispatched override; real runConstructorChain: base initialisers, base body, own initialisers, own body (argument symbolic).',
                note='two kernels of the object model only: analyser-side overload resolution, reference-typed overload parameters, static fields, generics, destructors/destroy order and printed output of whole programs are NOT encoded; the hierarchy is fixed, objects are built directly. Found and fixed: super.m() lost the receiver (7fa3323); an override reached by virtual dispatch ran in the static class\'s context (ff0e2e4). The class-table defects found with the same harness are recorded under C10 and C12.',
                ref='DESIGN.md §2 C08', tech=TECH_SAT),
})
NA = {
    'C11': 'needs exec/eval of call and new expressions with collections triggered at symbolic statement boundaries; exec of a single statement gives no verdict (900 s, 30 GB); the data-race clause needs a thread model CBMC does not get from this translation',
    'C18': 'needs two complete execute() runs of a parsed program inside one query; a single statement already exceeds the budget',
    'C19': 'import resolution is std::filesystem + ifstream around a DFS: needs a symbolic file system and a model of filesystem::path, neither within reach of the IR->C/CBMC route',
}
def main():
    props = [json.loads(l) for l in open(os.path.join(here, 'properties.jsonl'))]
    checks = []
    for p in props:
        c = CHECKS.get(p['id'])
        if not c:
            continue
        checks.append({
            'property_id': p['id'],
            'quick_cmd': './bin/check %s --tier quick' % p['id'],
            'thorough_cmd': './bin/check %s --tier thorough' % p['id'],
            'evidence_file': 'evidence/%s.json' % p['id'],
            'replay_cmd_template': './bin/check %s --replay {path}' % p['id'],
            'engine': 'ir2c+cbmc',
            'level_claimed': {'category': 'model_checking', 'text': c['text'], 'design_ref': c['ref']},
            'level_note': c['note'],
            'technique': c['tech'],
        })
    na = []
    for p in props:
        if p['id'] not in CHECKS:
            na.append({'property_id': p['id'], 'reason': NA.get(p['id'], 'no check built')})
    m = {
        'version': 1,
        'setup_cmd': 'python3 -m py_compile tools/ir2c.py tools/vcheck.py && cbmc --version && cvc5 --version | head -1 && clang++-14 --version | head -1',
        'hooks': {'guard': 'BLOCH_VERIF', 'enable': 'none needed: harness TUs #include the real sources (unity build, #define private public); no hook code in /repo',
                  'baseline_off_cmd': 'cmake --build /repo/_build && ctest --test-dir /repo/_build -j8 --timeout 900',
                  'source_commits': [], 'add_only': True},
        'engines': [{'name': 'ir2c+cbmc', 'path': 'tools/', 'serves_properties': sorted(CHECKS),
                     'kind_free_text': 'clang-14 IR of the real translation units -> own IR-to-C translator -> CBMC 6.11 (SAT or SMT2 + cvc5/z3 portfolio) -> native replay'}],
        'checks': checks,
        'not_applicable': na,
        'notes': 'All checks rebuild from /repo working tree on every run. VERIF_REPO overrides the tree (used for seeded changes).',
    }
    json.dump(m, open(os.path.join(here, 'MANIFEST.json'), 'w'), indent=1)
main()
