#!/bin/sh
# usage: tools/seedconfirm.sh <id>   (scratch worktree /tmp/seed_<id> with _build, patch.diff, demo/run.sh)
ID="$1"; W=/tmp/seed_$ID
export BLOCH_NO_UPDATE_CHECK=1
cd $W || exit 3
git checkout -q -- src
git apply patch.diff || { echo "PATCH-DOES-NOT-APPLY"; exit 3; }
cmake --build _build > /tmp/seedconfirm_$ID.log 2>&1 || { echo "BUILD-FAILS-WITH-PATCH"; git checkout -q -- src; exit 3; }
T=$(_build/bin/bloch_tests 2>&1 | tail -1)
echo "tests with patch: $T"
sh demo/run.sh $W/_build > /tmp/seedconfirm_$ID.demo1 2>&1; D1=$?
echo "demo with patch: exit $D1"
git checkout -q -- src
cmake --build _build >> /tmp/seedconfirm_$ID.log 2>&1
T2=$(_build/bin/bloch_tests 2>&1 | tail -1)
sh demo/run.sh $W/_build > /tmp/seedconfirm_$ID.demo2 2>&1; D2=$?
echo "tests without patch: $T2"
echo "demo without patch: exit $D2"
