#!/bin/sh
# usage: tools/seedrun.sh <seed-dir> <check-id> [VERIF_ONLY regex]
# Applies <seed-dir>/patch.diff to a scratch copy of /repo/src (outside /repo and /verif), runs the check against it, removes the copy.
SEED=$(cd "$1" && pwd); ID="$2"; ONLY="$3"
TMP=$(mktemp -d /var/tmp/seedrepo.XXXXXX)
cp -r /repo/src "$TMP/src" || exit 3
( cd "$TMP" && patch -p1 -s < "$SEED/patch.diff" ) || { rm -rf "$TMP"; exit 3; }
cd /verif
# the seeded run must not replace the evidence of the unchanged tree
[ -f "evidence/$ID.json" ] && cp "evidence/$ID.json" "$TMP/evidence.keep"
if [ -n "$ONLY" ]; then VERIF_ONLY="$ONLY" VERIF_REPO="$TMP" ./bin/check "$ID" --tier quick; else VERIF_REPO="$TMP" ./bin/check "$ID" --tier quick; fi
RC=$?
[ -f "$TMP/evidence.keep" ] && cp "$TMP/evidence.keep" "evidence/$ID.json"
rm -rf "$TMP"
exit $RC
