#!/usr/bin/env python3
"""vcheck: driver library for the solver-based checks.

pipeline per query:  harness.cpp (+ current /repo sources) --clang++-14--> .ll --ir2c--> .c --cbmc--> verdict
  mode 'sat' : cbmc's own SAT back end, counterexample from --trace
  mode 'smt' : cbmc --smt2 --outfile, then a portfolio of cvc5 / z3 / z3-new on the file, model via get-value
A failed query is replayed natively (g++ -fsanitize=address,undefined build of the same harness TU against the real
sources, nondeterministic choices taken from the solver's model); only a reproduced failure is a violation.
"""
import os, re, sys, json, time, shutil, subprocess, tempfile, hashlib, threading, resource, signal
from concurrent.futures import ThreadPoolExecutor

VERIF = os.path.dirname(os.path.dirname(os.path.abspath(__file__)))
REPO = os.environ.get('VERIF_REPO', '/repo')
CLANG = 'clang++-14'
CLANG_FLAGS = ['-std=c++20', '-O1', '-fno-vectorize', '-fno-slp-vectorize', '-fno-unroll-loops', '-w']
MODELS = ['verif_rt.h', 'std_models.h']

_lock = threading.Lock()


def log(*a):
    with _lock:
        print(*a, file=sys.stderr, flush=True)


class Ctx:
    def __init__(self, prop, tier, seed):
        self.prop = prop
        self.tier = tier
        self.seed = seed
        self.tmp = tempfile.mkdtemp(prefix='vcheck-%s-' % prop, dir=os.environ.get('VERIF_TMP', '/var/tmp'))
        self.jobs = int(os.environ.get('VERIF_JOBS', '14'))
        self.cache = {}
        self.t0 = time.time()
        self.functions_encoded = set()
        self.stubs = set()
        self.overridden = set()
        self.build_errors = []
        self.witness_count = {}

    def cleanup(self):
        shutil.rmtree(self.tmp, ignore_errors=True)

    def incs(self):
        return ['-I%s/src' % REPO, '-I%s/src/third_party' % REPO, '-I%s/harness' % VERIF]

    def src_defs(self):
        return ['-DVERIF_SIM_CPP="%s/src/bloch/runtime/qasm_simulator.cpp"' % REPO,
                '-DVERIF_REPO_SRC="%s/src"' % REPO,
                '-DVERIF_LEXER_CPP="%s/src/bloch/compiler/lexer/lexer.cpp"' % REPO,
                '-DVERIF_PARSER_CPP="%s/src/bloch/compiler/parser/parser.cpp"' % REPO,
                '-DVERIF_EVAL_CPP="%s/src/bloch/runtime/runtime_evaluator.cpp"' % REPO,
                '-DVERIF_ANALYSER_CPP="%s/src/bloch/compiler/semantics/semantic_analyser.cpp"' % REPO,
                '-DVERIF_BUILTINS_CPP="%s/src/bloch/compiler/semantics/built_ins.cpp"' % REPO,
                '-DVERIF_TYPESYS_CPP="%s/src/bloch/compiler/semantics/type_system.cpp"' % REPO,
                '-DVERIF_UPDATE_CPP="%s/src/bloch/update/update_manager.cpp"' % REPO]


class BuildError(Exception):
    pass


def sh(cmd, timeout=None, cwd=None, env=None, mem_gb=None):
    """run, return (rc, out, seconds, maxrss_kb); rc=124 on timeout"""
    t0 = time.time()

    def pre():
        os.setsid()
        if mem_gb:
            resource.setrlimit(resource.RLIMIT_AS, (mem_gb << 30, mem_gb << 30))
    p = subprocess.Popen(cmd, stdout=subprocess.PIPE, stderr=subprocess.STDOUT, cwd=cwd, env=env, preexec_fn=pre)
    try:
        out, _ = p.communicate(timeout=timeout)
        rc = p.returncode
    except subprocess.TimeoutExpired:
        try:
            os.killpg(p.pid, signal.SIGKILL)
        except ProcessLookupError:
            pass
        out, _ = p.communicate()
        rc = 124
    ru = resource.getrusage(resource.RUSAGE_CHILDREN)
    return rc, out.decode('utf8', 'replace'), time.time() - t0, ru.ru_maxrss


def compile_ir(ctx, harness, defs=()):
    key = ('ir', harness, tuple(defs))
    with _lock:
        if key in ctx.cache:
            return ctx.cache[key]
    src = os.path.join(VERIF, 'harness', harness)
    out = os.path.join(ctx.tmp, '%s-%s.ll' % (os.path.splitext(harness)[0], hashlib.md5(repr(key).encode()).hexdigest()[:8]))
    cmd = [CLANG] + CLANG_FLAGS + ctx.incs() + ctx.src_defs() + list(defs) + ['-S', '-emit-llvm', src, '-o', out]
    rc, o, t, _ = sh(cmd, timeout=600)
    if rc != 0:
        raise BuildError('ERROR harness-build: %s does not compile against %s:\n%s' % (harness, REPO, o[-3000:]))
    with _lock:
        ctx.cache[key] = out
    return out


def gen_c(ctx, ll, entries, fp='exact', global_init=False, extra_models=()):
    key = ('c', ll, tuple(entries), fp, global_init, tuple(extra_models))
    with _lock:
        if key in ctx.cache:
            return ctx.cache[key]
    out = ll[:-3] + '-%s.c' % hashlib.md5(repr(key).encode()).hexdigest()[:8]
    cmd = [sys.executable, os.path.join(VERIF, 'tools', 'ir2c.py'), ll, '--fp', fp, '--models-dir', os.path.join(VERIF, 'models'),
           '-o', out, '--info', out + '.json']
    for e in entries:
        cmd += ['--entry', e]
    for m in list(MODELS) + list(extra_models):
        cmd += ['--models', m]
    if not global_init:
        cmd.append('--no-global-init')
    rc, o, t, _ = sh(cmd, timeout=600)
    if rc != 0:
        raise BuildError('ERROR translator: ir2c failed on %s:\n%s' % (ll, o[-3000:]))
    info = json.load(open(out + '.json'))
    with _lock:
        ctx.functions_encoded |= set(info['functions'])
        ctx.stubs |= set(info['stubs'])
        ctx.overridden |= set(info['overridden'])
        ctx.cache[key] = out
    return out


class Query:
    def __init__(self, name, harness, entry, params=(), mode='sat', fp='exact', unwind=10, unwindset=(), defines=(),
                 checks='full', timeout=120, arena=False, global_init=False, extra_models=(), harness_defs=(),
                 cbmc_args=(), desc=None, witness=False, mem_gb=24, all_entries=None, native_defs=(), object_bits=10):
        self.name = name
        self.harness = harness
        self.entry = entry
        self.params = list(params)
        self.mode = mode
        self.fp = fp
        self.unwind = unwind
        self.unwindset = list(unwindset)
        self.defines = list(defines)
        self.checks = checks
        self.timeout = timeout
        self.arena = arena
        self.global_init = global_init
        self.extra_models = list(extra_models)
        self.harness_defs = list(harness_defs)
        self.cbmc_args = list(cbmc_args)
        self.desc = desc or name
        self.witness = witness
        self.mem_gb = mem_gb
        self.all_entries = all_entries or [entry]
        self.native_defs = list(native_defs)
        self.object_bits = object_bits


def cbmc_cmd(ctx, q, cfile, witness=False):
    cmd = ['cbmc', cfile, '-I', os.path.join(VERIF, 'models'), '--function', '__ir2c_entry_' + re.sub(r'[^A-Za-z0-9_]', '_', q.entry),
           '--unwind', str(q.unwind), '--unwinding-assertions', '--no-malloc-may-fail', '--drop-unused-functions',
           '--object-bits', str(q.object_bits)]
    for u in q.unwindset:
        cmd += ['--unwindset', u]
    for i, p in enumerate(q.params):
        cmd.append('-DVERIF_P%d=%d' % (i, p))
    for d in q.defines:
        cmd.append(d)
    if q.fp == 'uf':
        cmd.append('-DIR2C_FP_UF')
    if q.arena:
        cmd += ['-DIR2C_ARENA', '--max-field-sensitivity-array-size', '512']
    if witness:
        cmd.append('-DWITNESS')
    if q.checks == 'full':
        cmd += ['--pointer-overflow-check', '--undefined-shift-check']
    elif q.checks == 'deref':
        # dereference/bounds/division checks, but not --pointer-overflow-check: libstdc++ forms `nullptr + 0` and
        # one-past pointers that CBMC flags and no sanitizer confirms
        cmd += ['--undefined-shift-check']
    elif q.checks == 'asserts':
        cmd += ['--no-pointer-check', '--no-bounds-check', '--no-pointer-primitive-check', '--no-div-by-zero-check',
                '--no-signed-overflow-check', '--no-undefined-shift-check']
    cmd += q.cbmc_args
    return cmd


RE_RESULT = re.compile(r'^\[([^\]]+)\] (?:line (\d+) )?(.*): (SUCCESS|FAILURE|UNKNOWN)$')


def parse_cbmc_text(out):
    props = []
    for ln in out.split('\n'):
        m = RE_RESULT.match(ln.strip())
        if m:
            props.append({'id': m.group(1), 'line': m.group(2), 'desc': m.group(3), 'status': m.group(4)})
    return props


def parse_traces(out):
    """-> {prop_id: [nd values in call order]}"""
    traces = {}
    cur = None
    in_nd = False
    for ln in out.split('\n'):
        if ln.startswith('Trace for '):
            cur = ln[len('Trace for '):].rstrip(':').strip()
            traces[cur] = []
            in_nd = False
        elif ln.startswith('State '):
            in_nd = ' function ir2c_nd ' in ln
        elif cur is not None and in_nd:
            m = re.match(r'\s+v=.*\(([01 ]+)\)\s*$', ln)
            if m:
                traces[cur].append(int(m.group(1).replace(' ', ''), 2))
    return traces


def classify(props):
    """split failed properties into user assertions / built-in checks / machinery"""
    fails = [p for p in props if p['status'] == 'FAILURE']
    return fails


def run_sat(ctx, q, cfile, witness=False):
    cmd = cbmc_cmd(ctx, q, cfile, witness) + ['--trace']
    rc, out, secs, rss = sh(cmd, timeout=q.timeout, mem_gb=q.mem_gb)
    res = {'query': q.name + ('#witness' if witness else ''), 'backend': 'cbmc-sat', 'seconds': round(secs, 2), 'rss_kb': rss,
           'unwind': q.unwind, 'params': q.params}
    if rc == 124:
        res['verdict'] = 'timeout'
        return res
    props = parse_cbmc_text(out)
    res['properties'] = len(props)
    if 'VERIFICATION SUCCESSFUL' in out and rc == 0:
        res['verdict'] = 'holds'
        return res
    if 'VERIFICATION FAILED' in out:
        fails = classify(props)
        res['verdict'] = 'fails'
        res['failed'] = [{'id': p['id'], 'desc': p['desc']} for p in fails]
        tr = parse_traces(out)
        res['traces'] = {k: v for k, v in tr.items()}
        return res
    res['verdict'] = 'error'
    res['output_tail'] = out[-2000:]
    return res


SOLVERS = [('cvc5', ['cvc5', '--produce-models']), ('z3', ['z3']), ('z3-new', ['z3-new'])]


def run_smt(ctx, q, cfile, witness=False):
    tag = hashlib.md5((q.name + str(witness)).encode()).hexdigest()[:10]
    smt = os.path.join(ctx.tmp, 'q-%s.smt2' % tag)
    cmd = cbmc_cmd(ctx, q, cfile, witness) + ['--smt2', '--outfile', smt]
    t0 = time.time()
    rc, out, secs, rss = sh(cmd, timeout=q.timeout, mem_gb=q.mem_gb)
    res = {'query': q.name + ('#witness' if witness else ''), 'backend': 'cbmc-smt2+portfolio', 'gen_seconds': round(secs, 2),
           'rss_kb': rss, 'unwind': q.unwind, 'params': q.params}
    if rc == 124:
        res['verdict'] = 'timeout'
        return res
    if not os.path.exists(smt) or os.path.getsize(smt) == 0:
        if 'VERIFICATION SUCCESSFUL' in out:
            # every VCC was discharged by CBMC's simplifier
            res['verdict'] = 'holds'
            res['solver'] = 'cbmc-simplifier'
            res['seconds'] = round(secs, 2)
            return res
        res['verdict'] = 'error'
        res['output_tail'] = out[-2000:]
        return res
    text = open(smt).read()
    nd_syms = sorted(set(re.findall(r'\|ir2c_nd::1::v!0@(\d+)#2\|', text)), key=int)
    body = [l for l in text.split('\n') if not l.startswith('(get-value') and not l.startswith('(exit')]
    for k in nd_syms:
        body.append('(get-value (|ir2c_nd::1::v!0@%s#2|))' % k)
    body.append('(exit)')
    open(smt, 'w').write('\n'.join(body) + '\n')
    res['smt2_bytes'] = len(text)
    # portfolio
    procs = []
    left = max(5, q.timeout - (time.time() - t0))
    for name, cmdl in SOLVERS:
        p = subprocess.Popen(cmdl + [smt], stdout=subprocess.PIPE, stderr=subprocess.STDOUT, preexec_fn=os.setsid)
        procs.append((name, p))
    t1 = time.time()
    verdict = None
    answer = None
    winner = None
    answers = {}
    while time.time() - t1 < left and verdict is None:
        alive = False
        for name, p in procs:
            if name in answers:
                continue
            r = p.poll()
            if r is None:
                alive = True
                continue
            o = p.stdout.read().decode('utf8', 'replace')
            answers[name] = o
            first = o.strip().split('\n')[0].strip() if o.strip() else ''
            if first in ('sat', 'unsat') and not (first == 'unsat' and re.search(r'\(error(?! "(line \d+ column \d+: model is not available|Cannot get value))', o)):
                verdict = first
                answer = o
                winner = name
                break
        if not alive and verdict is None:
            break
        time.sleep(0.05)
    for name, p in procs:
        if p.poll() is None:
            try:
                os.killpg(p.pid, signal.SIGKILL)
            except ProcessLookupError:
                pass
        try:
            p.communicate(timeout=5)
        except Exception:
            pass
    res['seconds'] = round(time.time() - t0, 2)
    res['solver_seconds'] = round(time.time() - t1, 2)
    res['solver'] = winner
    try:
        os.unlink(smt)
    except OSError:
        pass
    if verdict is None:
        res['verdict'] = 'timeout' if time.time() - t1 >= left else 'error'
        res['solver_outputs'] = {k: v[:300] for k, v in answers.items()}
        return res
    if verdict == 'unsat':
        res['verdict'] = 'holds'
        return res
    vals = {}
    for m in re.finditer(r'\(\(\|ir2c_nd::1::v!0@(\d+)#2\|\s+(#b[01]+|#x[0-9a-fA-F]+)\)\)', answer):
        v = m.group(2)
        vals[int(m.group(1))] = int(v[2:], 2 if v[1] == 'b' else 16)
    nd = [vals[k] for k in sorted(vals)]
    res['verdict'] = 'fails'
    res['failed'] = [{'id': 'smt-combined', 'desc': 'some assertion of the query can fail'}]
    res['traces'] = {'smt-combined': nd}
    return res


def run_query(ctx, q):
    try:
        ll = compile_ir(ctx, q.harness, q.harness_defs)
        cfile = gen_c(ctx, ll, q.all_entries, q.fp, q.global_init, q.extra_models)
    except BuildError as e:
        with _lock:
            ctx.build_errors.append(str(e))
        return {'query': q.name, 'verdict': 'build-error', 'error': str(e)[-1500:]}
    fn = run_smt if q.mode == 'smt' else run_sat
    res = fn(ctx, q, cfile, False)
    res['desc'] = q.desc
    res['entry'] = q.entry
    run_witness = False
    if res['verdict'] == 'holds' and q.witness:
        # vacuity guard: one reachability twin per (entry, first few parameter tuples) and then every 8th query
        with _lock:
            k = (q.harness, q.entry)
            n = ctx.witness_count.get(k, 0)
            ctx.witness_count[k] = n + 1
        run_witness = q.witness == 'always' or n < 2 or n % 8 == 0
    if run_witness:
        w = fn(ctx, q, cfile, True)
        ok = w['verdict'] == 'fails'
        if ok and q.mode == 'sat':
            ok = any('witness-reach' in f['desc'] for f in w.get('failed', []))
        res['witness_ok'] = ok
        res['witness_seconds'] = w.get('seconds')
        if not ok:
            res['verdict'] = 'vacuous'
            res['witness_verdict'] = w['verdict']
    return res


# ----------------------------------------------------------------------------- native replay
def native_binary(ctx, harness, defs=()):
    key = ('native', harness, tuple(defs))
    with _lock:
        if key in ctx.cache:
            return ctx.cache[key]
    out = os.path.join(ctx.tmp, 'native-%s-%s' % (os.path.splitext(harness)[0], hashlib.md5(repr(key).encode()).hexdigest()[:8]))
    cmd = ['g++', '-std=c++20', '-O1', '-g', '-fsanitize=address,undefined', '-fno-sanitize-recover=undefined', '-w',
           '-rdynamic'] + ctx.incs() + ctx.src_defs() + [d for d in defs if not d.startswith('-l') and d != '-fno-pie'] + \
          [os.path.join(VERIF, 'harness', harness), os.path.join(VERIF, 'replay', 'native_rt.cpp'), '-ldl', '-lpthread'] + \
          [d for d in defs if d.startswith('-l')] + ['-o', out]
    rc, o, t, _ = sh(cmd, timeout=900)
    if rc != 0:
        raise BuildError('ERROR harness-build (native): %s\n%s' % (harness, o[-3000:]))
    with _lock:
        ctx.cache[key] = out
    return out


def replay_native(ctx, q, nd_values, timeout=60, generic_seed=None):
    """run the real code natively on the solver's choices. returns dict(reproduced, kind, detail)"""
    try:
        exe = native_binary(ctx, q.harness, list(q.harness_defs) + list(q.native_defs))
    except BuildError as e:
        return {'reproduced': False, 'kind': 'build-error', 'detail': str(e)[-800:]}
    args = [exe, q.entry, ','.join(str(p) for p in q.params)] + ['%x' % v for v in nd_values]
    env = dict(os.environ)
    env['ASAN_OPTIONS'] = 'detect_leaks=0:abort_on_error=0:exitcode=77'
    env['UBSAN_OPTIONS'] = 'print_stacktrace=1:halt_on_error=1:exitcode=78'
    if generic_seed is not None:
        env['VERIF_GENERIC_SEED'] = str(generic_seed)
    rc, out, secs, _ = sh(args, timeout=timeout, env=env)
    r = {'rc': rc, 'output_tail': out[-1500:]}
    if generic_seed is not None:
        r['generic_seed'] = generic_seed
    if rc == 124:
        r.update(reproduced=True, kind='hang', detail='native replay did not terminate within %ds' % timeout)
    elif 'ASSERT-FAILED' in out:
        msgs = re.findall(r'ASSERT-FAILED (.*)', out)
        r.update(reproduced=True, kind='assert', detail=msgs[0], all=msgs)
    elif rc == 4 or 'ASSUME-FAILED' in out:
        r.update(reproduced=False, kind='assume-failed', detail='replay left the assumed input space')
    elif rc in (77, 78) or 'AddressSanitizer' in out or 'runtime error:' in out:
        m = re.search(r'(ERROR: AddressSanitizer: [^\n]*|[^\n]*runtime error: [^\n]*)', out)
        r.update(reproduced=True, kind='sanitizer', detail=m.group(1) if m else 'sanitizer report')
    elif rc < 0 or rc >= 128:
        r.update(reproduced=True, kind='signal', detail='native replay died with status %d' % rc)
    elif 'UNCAUGHT' in out:
        m = re.search(r'UNCAUGHT (.*)', out)
        r.update(reproduced=True, kind='exception', detail=m.group(1))
    elif rc == 0:
        r.update(reproduced=False, kind='ok', detail='native run passed')
    else:
        r.update(reproduced=False, kind='unknown', detail='rc=%d' % rc)
    return r


# ----------------------------------------------------------------------------- known findings
def load_known():
    p = os.path.join(VERIF, 'known_findings.json')
    if not os.path.exists(p):
        return {'known': [], 'fixed': []}
    return json.load(open(p))


def match_known(prop, detail_key):
    for k in load_known().get('known', []):
        if k['property'] == prop and re.search(k['match'], detail_key):
            return k
    return None


# ----------------------------------------------------------------------------- running a check
def run_check(prop, tier, queries, meta, replay_path=None):
    """queries: list[Query]; meta: dict(level_text, assumptions, rule, bounds, outside)"""
    seed = int(os.environ.get('VERIF_SEED', '0') or 0)
    only = os.environ.get('VERIF_ONLY')
    if only:
        queries = [q for q in queries if re.search(only, q.name)]
    ctx = Ctx(prop, tier, seed)
    t0 = time.time()
    results = []
    try:
        # compile all distinct IRs first (serially per harness to avoid duplicated work), then run queries in parallel
        with ThreadPoolExecutor(max_workers=ctx.jobs) as ex:
            pre = {}
            for q in queries:
                k = (q.harness, tuple(q.harness_defs))
                if k not in pre:
                    pre[k] = ex.submit(lambda q=q: _safe_compile(ctx, q))
            for f in pre.values():
                f.result()
            # one translation per (ll, entries...) -- do it before fan-out so threads do not duplicate it
            pre2 = {}
            for q in queries:
                k = (q.harness, tuple(q.harness_defs), tuple(q.all_entries), q.fp, q.global_init, tuple(q.extra_models))
                if k not in pre2:
                    pre2[k] = ex.submit(lambda q=q: _safe_gen(ctx, q))
            for f in pre2.values():
                f.result()
            futs = [ex.submit(run_query, ctx, q) for q in queries]
            results = [f.result() for f in futs]
        violations = []
        known_hits = []
        unconfirmed = []
        inconclusive = []
        machinery = []
        replays_dir = os.path.join(VERIF, 'replays')
        os.makedirs(replays_dir, exist_ok=True)
        for q, r in zip(queries, results):
            v = r['verdict']
            if v == 'holds':
                continue
            if v in ('timeout',):
                inconclusive.append(r['query'])
                continue
            if v in ('build-error', 'error', 'vacuous'):
                machinery.append((r['query'], v, r.get('error') or r.get('output_tail') or r.get('witness_verdict')))
                continue
            # fails: machinery-internal failures first
            fl = r.get('failed', [])
            mach = [f for f in fl if f['desc'].startswith('ir2c:') or 'unwinding assertion' in f['desc'] or 'no body for' in f['desc']]
            if mach and q.mode == 'sat':
                real = [f for f in fl if f not in mach]
                if not real:
                    if any('unwinding assertion' in f['desc'] for f in mach):
                        inconclusive.append(r['query'] + ' (unwinding bound %d too small: %s)' % (q.unwind, mach[0]['id']))
                    else:
                        machinery.append((r['query'], 'model', '; '.join(f['desc'] for f in mach)[:400]))
                    r['verdict'] = 'inconclusive'
                    continue
            # replay each distinct trace
            seen = set()
            confirmed_any = False
            for pid, nd in r.get('traces', {}).items():
                key = tuple(nd)
                if key in seen:
                    continue
                seen.add(key)
                pdesc = next((f['desc'] for f in fl if f['id'] == pid), pid)
                if pdesc.startswith('ir2c:') or 'unwinding assertion' in pdesc or 'witness-reach' in pdesc:
                    continue
                rp = replay_native(ctx, q, nd)
                if not rp['reproduced'] and q.fp == 'uf' and rp['kind'] in ('ok', 'assume-failed'):
                    # term-level counterexample: confirm on generic numeric inputs (non-FP choices kept from the model)
                    for k in range(8):
                        rp2 = replay_native(ctx, q, nd, generic_seed=ctx.seed * 100 + k + 1)
                        if rp2['reproduced']:
                            rp = rp2
                            break
                rec = {'property': prop, 'query': q.name, 'harness': q.harness, 'entry': q.entry, 'params': q.params,
                       'nd': ['%x' % x for x in nd], 'fp': q.fp, 'harness_defs': q.harness_defs + q.native_defs, 'solver_property': pdesc, 'native': rp}
                if rp['reproduced']:
                    confirmed_any = True
                    what = '%s: %s' % (q.name, rp['detail'])
                    kn = match_known(prop, what)
                    h = hashlib.md5(json.dumps([q.name, q.params, rec['nd']]).encode()).hexdigest()[:10]
                    path = os.path.join(replays_dir, '%s-%s.json' % (prop, h))
                    json.dump(rec, open(path, 'w'), indent=1)
                    if kn:
                        known_hits.append((kn, what, path))
                    else:
                        violations.append((what, path))
                else:
                    unconfirmed.append({'query': q.name, 'solver_property': pdesc, 'native': rp['kind'], 'detail': rp['detail'][:200]})
            if not confirmed_any:
                r['verdict'] = 'unconfirmed'
        wall = time.time() - t0
        # ---- evidence
        n_q = len(results)
        held = [r for r in results if r['verdict'] == 'holds']
        nontriv = [r for r in results if r.get('properties', 1) > 0 and r['verdict'] in ('holds', 'fails', 'unconfirmed')]
        samples = []
        for r in results[:3] + results[-2:]:
            samples.append({k: r.get(k) for k in ('query', 'desc', 'verdict', 'backend', 'seconds', 'params', 'unwind', 'witness_ok')})
        for w, pth in violations[:3]:
            samples.append({'violation': w, 'replay': pth})
        ev = {
            'property_id': prop, 'tier': tier, 'seed': seed, 'level': 'model_checking',
            'coverage': {
                'evaluations': n_q,
                'distinct_nontrivial': len(set(r['query'] for r in nontriv)),
                'rule': meta.get('rule', 'one bounded symbolic query per enumerated parameter tuple; non-trivial = the query '
                                         'reached the solver with at least one verification condition and was decided'),
                'samples': samples,
                'obligations': n_q, 'discharged': len(held),
                'inconclusive': inconclusive,
                'unconfirmed_counterexamples': unconfirmed,
                'known_findings_hit': [k['id'] for k, _, _ in known_hits],
                'functions_encoded': sorted(ctx.functions_encoded),
                'overridden_by_models': sorted(ctx.overridden),
                'auto_stubs_assert_unreachable': sorted(ctx.stubs),
                'bounds': meta.get('bounds', {}),
                'outside_claim': meta.get('outside', []),
                'queries': [{k: v for k, v in r.items() if k not in ('traces', 'output_tail')} for r in results],
                'solver_seconds_total': round(sum(r.get('seconds') or 0 for r in results), 1),
                'traces_validated_against_impl': len(violations) + len(known_hits) + len(unconfirmed),
                'explanation': meta.get('level_text', ''),
            },
            'assumptions': meta.get('assumptions', []),
            'wall_s': round(wall, 2),
            'violations': len(violations),
        }
        os.makedirs(os.path.join(VERIF, 'evidence'), exist_ok=True)
        json.dump(ev, open(os.path.join(VERIF, 'evidence', '%s.json' % prop), 'w'), indent=1)
        # ---- report
        for kn, what, path in known_hits:
            print('KNOWN-FINDING: property=%s %s [%s] replay=%s' % (prop, kn['what'], kn['id'], path))
        for what, path in violations:
            print('VIOLATION property=%s replay=%s' % (prop, path))
            print('  ' + what)
        for m in machinery:
            print('ERROR machinery: %s %s %s' % (m[0], m[1], (m[2] or '')[:600]))
        print('%s %s: %d queries, %d held, %d inconclusive, %d unconfirmed counterexamples, %d known findings, %d violations, %.1fs'
              % (prop, tier, n_q, len(held), len(inconclusive), len(unconfirmed), len(known_hits), len(violations), wall))
        if violations:
            return 1
        if machinery:
            return 2
        return 0
    finally:
        ctx.cleanup()


def _safe_compile(ctx, q):
    try:
        compile_ir(ctx, q.harness, q.harness_defs)
    except BuildError as e:
        with _lock:
            ctx.build_errors.append(str(e))


def _safe_gen(ctx, q):
    try:
        ll = compile_ir(ctx, q.harness, q.harness_defs)
        gen_c(ctx, ll, q.all_entries, q.fp, q.global_init, q.extra_models)
    except BuildError as e:
        with _lock:
            ctx.build_errors.append(str(e))


def run_replay(prop, path):
    rec = json.load(open(path))
    ctx = Ctx(prop, 'replay', 0)
    try:
        q = Query(rec['query'], rec['harness'], rec['entry'], rec['params'], harness_defs=rec.get('harness_defs', []), fp=rec.get('fp', 'exact'))
        rp = replay_native(ctx, q, [int(x, 16) for x in rec['nd']], generic_seed=rec.get('native', {}).get('generic_seed'))
        print(json.dumps(rp, indent=1))
        if rp['reproduced']:
            print('VIOLATION property=%s replay=%s' % (prop, path))
            return 1
        return 0
    finally:
        ctx.cleanup()
