#!/bin/sh
# runs every registered check's quick tier sequentially and prints one summary line per check
cd /verif
for c in C01 C02 C03 C04 C05 C06 C13 C14 C15 C20 C17 C09 C12 C07 C10 C16 C08; do
  S=$(date +%s)
  ./bin/check $c --tier quick > /tmp/runall_$c.log 2>&1
  RC=$?
  E=$(date +%s)
  echo "$c rc=$RC $((E-S))s $(tail -1 /tmp/runall_$c.log)"
done
