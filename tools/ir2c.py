#!/usr/bin/env python3
"""ir2c: LLVM-14 textual IR (typed pointers) -> C for CBMC / gcc.

Translates the functions reachable from the given entry points.  Exceptions are lowered to a
pending-exception flag, external functions are declared with `void*` for every pointer so that the
hand-written models in /verif/models can define them, and (with --fp uf) floating-point arithmetic
is routed through __ir2c_f* helpers that the prelude maps to uninterpreted functions.

Usage: ir2c.py IN.ll --entry f [--entry g] [--fp exact|uf] [--no-global-init]
                [--override NAME ...] [--override-file FILE] -o OUT.c [--info OUT.json]
"""
import re, sys, json, argparse

# ----------------------------------------------------------------------------- tokenizer
TOK_RE = re.compile(r'''
    (?P<ws>\s+)
  | (?P<cstr>c"(?:[^"\\]|\\[0-9A-Fa-f]{2}|\\\\)*")
  | (?P<gq>@"(?:[^"\\]|\\.)*")
  | (?P<lq>%"(?:[^"\\]|\\.)*")
  | (?P<comdat>\$"(?:[^"\\]|\\.)*"|\$[-a-zA-Z$._0-9]+)
  | (?P<str>"(?:[^"\\]|\\.)*")
  | (?P<g>@[-a-zA-Z$._0-9]+)
  | (?P<l>%[-a-zA-Z$._0-9]+)
  | (?P<md>![-a-zA-Z$._0-9]*)
  | (?P<attr>\#[0-9]+)
  | (?P<fphex>0x[KLMHR]?[0-9A-Fa-f]+)
  | (?P<num>-?[0-9]+\.[0-9]*(?:[eE][-+]?[0-9]+)?|-?[0-9]+)
  | (?P<dots>\.\.\.)
  | (?P<word>[a-zA-Z_][-a-zA-Z_.0-9]*)
  | (?P<p>[(){}\[\]<>,=*:|])
''', re.X)


def tokenize(s):
    out = []
    pos = 0
    n = len(s)
    while pos < n:
        if s[pos] == ';':
            break
        m = TOK_RE.match(s, pos)
        if not m:
            raise SyntaxError('cannot tokenize at %r' % s[pos:pos + 40])
        pos = m.end()
        k = m.lastgroup
        if k == 'ws':
            continue
        out.append((k, m.group(k)))
    return out


def unq(name):
    """strip sigil and quotes from %"x" / @"x" / %x / @x"""
    n = name[1:]
    if n.startswith('"'):
        n = n[1:-1]
        n = re.sub(r'\\([0-9A-Fa-f]{2})', lambda m: chr(int(m.group(1), 16)), n)
    return n


# ----------------------------------------------------------------------------- types
class Ty:
    __slots__ = ('k', 'w', 'elem', 'n', 'fields', 'packed', 'name', 'ret', 'params', 'va', 'id', 'cname', 'opaque',
                 '_lay')

    def __init__(self, k):
        self.k = k
        self.w = 0
        self.elem = None
        self.n = 0
        self.fields = None
        self.packed = False
        self.name = None
        self.ret = None
        self.params = None
        self.va = False
        self.cname = None
        self.opaque = False
        self._lay = None

    def __repr__(self):
        return 'Ty(%s)' % tystr(self)


def tystr(t):
    if t.k == 'int':
        return 'i%d' % t.w
    if t.k in ('void', 'float', 'double', 'x86_fp80', 'label', 'metadata', 'token'):
        return t.k
    if t.k == 'ptr':
        return tystr(t.elem) + '*'
    if t.k == 'arr':
        return '[%d x %s]' % (t.n, tystr(t.elem))
    if t.k == 'struct':
        if t.name:
            return '%' + t.name
        s = '{' + ','.join(tystr(f) for f in t.fields) + '}'
        return '<' + s + '>' if t.packed else s
    if t.k == 'fn':
        return '%s(%s%s)' % (tystr(t.ret), ','.join(tystr(p) for p in t.params), ',...' if t.va else '')
    return t.k


class Types:
    def __init__(self):
        self.tab = {}
        self.named = {}
        self.all = []

    def _intern(self, key, mk):
        t = self.tab.get(key)
        if t is None:
            t = mk()
            t.id = len(self.all)
            self.all.append(t)
            self.tab[key] = t
        return t

    def prim(self, k):
        return self._intern(k, lambda: Ty(k))

    def int(self, w):
        def mk():
            t = Ty('int')
            t.w = w
            return t
        return self._intern(('int', w), mk)

    def ptr(self, e):
        def mk():
            t = Ty('ptr')
            t.elem = e
            return t
        return self._intern(('ptr', e.id), mk)

    def arr(self, n, e):
        def mk():
            t = Ty('arr')
            t.n = n
            t.elem = e
            return t
        return self._intern(('arr', n, e.id), mk)

    def lit_struct(self, fields, packed):
        def mk():
            t = Ty('struct')
            t.fields = fields
            t.packed = packed
            return t
        return self._intern(('ls', packed, tuple(f.id for f in fields)), mk)

    def fn(self, ret, params, va):
        def mk():
            t = Ty('fn')
            t.ret = ret
            t.params = params
            t.va = va
            return t
        return self._intern(('fn', ret.id, tuple(p.id for p in params), va), mk)

    def named_struct(self, name):
        t = self.named.get(name)
        if t is None:
            t = Ty('struct')
            t.name = name
            t.opaque = True
            t.fields = []
            t.id = len(self.all)
            self.all.append(t)
            self.named[name] = t
        return t


# ----------------------------------------------------------------------------- layout (x86-64 SysV as in the IR's datalayout)
def layout(t):
    """returns (size, align)"""
    if t._lay is not None:
        return t._lay
    k = t.k
    if k == 'int':
        if t.w <= 8:
            r = (1, 1)
        elif t.w <= 16:
            r = (2, 2)
        elif t.w <= 32:
            r = (4, 4)
        elif t.w <= 64:
            r = (8, 8)
        else:
            r = (16, 16)
    elif k == 'float':
        r = (4, 4)
    elif k == 'double':
        r = (8, 8)
    elif k == 'x86_fp80':
        r = (16, 16)
    elif k == 'ptr':
        r = (8, 8)
    elif k == 'arr':
        s, a = layout(t.elem)
        r = (s * t.n, a)
    elif k == 'struct':
        off = 0
        al = 1
        for f in t.fields:
            s, a = layout(f)
            if not t.packed:
                off = (off + a - 1) // a * a
                al = max(al, a)
            off += s
        if not t.packed:
            off = (off + al - 1) // al * al
        r = (off, al)
    else:
        r = (1, 1)
    t._lay = r
    return r


def _is_byte_array(t):
    return t.k == 'arr' and t.elem.k == 'int' and t.elem.w == 8


def is_storage_struct(t):
    """__gnu_cxx::__aligned_buffer<T> (wrapping a std::aligned_storage union) / __aligned_membuf<T>: a raw byte buffer
    that holds exactly one object of some type T.  The wrapper type is distinct per T (the inner union is shared)."""
    if not (t.k == 'struct' and bool(t.name) and not t.opaque and len(t.fields) == 1):
        return False
    f = t.fields[0]
    if t.name.startswith('struct.__gnu_cxx::__aligned_membuf'):
        return _is_byte_array(f)
    if t.name.startswith('struct.__gnu_cxx::__aligned_buffer'):
        return f.k == 'struct' and not f.opaque and len(f.fields) == 1 and _is_byte_array(f.fields[0])
    return False


def is_bytes_struct(t):
    return t.k == 'struct' and bool(t.name) and t.name.startswith('union.') and not t.opaque and len(t.fields) > 0


def field_offset(t, idx):
    off = 0
    for i, f in enumerate(t.fields):
        s, a = layout(f)
        if not t.packed:
            off = (off + a - 1) // a * a
        if i == idx:
            return off
        off += s
    raise IndexError


# ----------------------------------------------------------------------------- values
class V:
    __slots__ = ('k', 'ty', 'a', 'b')

    def __init__(self, k, ty, a=None, b=None):
        self.k = k
        self.ty = ty
        self.a = a
        self.b = b


class Parser:
    """token cursor with type/value parsing"""

    def __init__(self, types, toks):
        self.T = types
        self.t = toks
        self.i = 0

    def peek(self, o=0):
        j = self.i + o
        return self.t[j] if j < len(self.t) else (None, None)

    def next(self):
        x = self.t[self.i]
        self.i += 1
        return x

    def accept(self, val):
        if self.i < len(self.t) and self.t[self.i][1] == val:
            self.i += 1
            return True
        return False

    def expect(self, val):
        if not self.accept(val):
            raise SyntaxError('expected %r got %r (ctx %r)' % (val, self.peek(), self.t[max(0, self.i - 6):self.i + 6]))

    def at_end(self):
        return self.i >= len(self.t)

    # ---- types
    def type(self):
        k, v = self.next()
        T = self.T
        if k == 'word':
            if v == 'void':
                t = T.prim('void')
            elif re.fullmatch(r'i[0-9]+', v):
                t = T.int(int(v[1:]))
            elif v in ('float', 'double', 'x86_fp80', 'label', 'metadata', 'token', 'half'):
                t = T.prim(v)
            elif v == 'opaque':
                t = T.prim('opaque')
            elif v == 'ptr':
                raise SyntaxError('opaque pointers are not supported')
            else:
                raise SyntaxError('unknown type word %r' % v)
        elif k in ('l', 'lq'):
            t = T.named_struct(unq(v))
        elif v == '{':
            t = T.lit_struct(self._fields('}'), False)
        elif v == '<':
            if self.peek()[1] == '{':
                self.next()
                f = self._fields('}')
                self.expect('>')
                t = T.lit_struct(f, True)
            else:
                raise SyntaxError('vector types are not supported')
        elif v == '[':
            n = int(self.next()[1])
            self.expect('x')
            e = self.type()
            self.expect(']')
            t = T.arr(n, e)
        else:
            raise SyntaxError('bad type start %r' % v)
        while True:
            if self.accept('*'):
                t = T.ptr(t)
            elif self.peek()[1] == '(' and self._looks_like_fnty():
                self.next()
                ps = []
                va = False
                if not self.accept(')'):
                    while True:
                        if self.accept('...'):
                            va = True
                        else:
                            ps.append(self.type())
                        if self.accept(')'):
                            break
                        self.expect(',')
                t = T.fn(t, ps, va)
            else:
                break
        return t

    def _looks_like_fnty(self):
        # a '(' directly after a type is a function type (used only where types are expected)
        return True

    def _fields(self, close):
        fs = []
        if self.accept(close):
            return fs
        while True:
            fs.append(self.type())
            if self.accept(close):
                return fs
            self.expect(',')

    # ---- values
    def skip_param_attrs(self):
        """skip parameter/return attributes, return set of attr words seen"""
        seen = set()
        while True:
            k, v = self.peek()
            if k == 'word' and v in PARAM_ATTRS:
                self.next()
                seen.add(v)
                if v == 'align' and self.peek()[0] == 'num':
                    self.next()
                if self.peek()[1] == '(':
                    depth = 0
                    while True:
                        kk, vv = self.next()
                        if vv == '(':
                            depth += 1
                        elif vv == ')':
                            depth -= 1
                            if depth == 0:
                                break
            else:
                return seen

    def typed_value(self):
        ty = self.type()
        self.skip_param_attrs()
        return self.value(ty)

    def value(self, ty):
        k, v = self.next()
        T = self.T
        if k in ('l', 'lq'):
            return V('local', ty, unq(v))
        if k in ('g', 'gq'):
            return V('global', ty, unq(v))
        if k == 'num':
            if ty.k in ('float', 'double', 'x86_fp80'):
                return V('fp', ty, float(v))
            return V('int', ty, int(v))
        if k == 'fphex':
            return V('fphex', ty, v)
        if k == 'cstr':
            return V('cstr', ty, decode_cstr(v))
        if k == 'word':
            if v == 'true':
                return V('int', ty, 1)
            if v == 'false':
                return V('int', ty, 0)
            if v == 'null':
                return V('null', ty)
            if v in ('undef', 'poison'):
                return V('undef', ty)
            if v == 'zeroinitializer':
                return V('zero', ty)
            if v == 'none':
                return V('undef', ty)
            if v in CONST_EXPR_OPS:
                return self.constexpr(v, ty)
            raise SyntaxError('unknown value word %r' % v)
        if v == '{':
            return V('cstruct', ty, self._cfields('}'))
        if v == '<':
            if self.accept('{'):
                f = self._cfields('}')
                self.expect('>')
                return V('cstruct', ty, f)
            raise SyntaxError('vector constant')
        if v == '[':
            return V('carray', ty, self._cfields(']'))
        if k == 'md':
            return V('md', ty, v)
        raise SyntaxError('bad value %r %r' % (k, v))

    def _cfields(self, close):
        out = []
        if self.accept(close):
            return out
        while True:
            out.append(self.typed_value())
            if self.accept(close):
                return out
            self.expect(',')

    def constexpr(self, op, ty):
        # flags
        while self.peek()[1] in ('inbounds', 'nuw', 'nsw', 'exact'):
            self.next()
        self.expect('(')
        if op == 'getelementptr':
            sty = self.type()
            self.expect(',')
            ops = []
            while True:
                if self.peek()[1] == 'inrange':
                    self.next()
                ops.append(self.typed_value())
                if self.accept(')'):
                    break
                self.expect(',')
            return V('ce', ty, 'getelementptr', (sty, ops))
        if op in CAST_OPS:
            v = self.typed_value()
            self.expect('to')
            dty = self.type()
            self.expect(')')
            return V('ce', dty, op, (v,))
        if op in ('icmp', 'fcmp'):
            pred = self.next()[1]
            a = self.typed_value()
            self.expect(',')
            b = self.typed_value()
            self.expect(')')
            return V('ce', ty, op, (pred, a, b))
        if op == 'select':
            c = self.typed_value()
            self.expect(',')
            a = self.typed_value()
            self.expect(',')
            b = self.typed_value()
            self.expect(')')
            return V('ce', ty, op, (c, a, b))
        # binary
        a = self.typed_value()
        self.expect(',')
        b = self.typed_value()
        self.expect(')')
        return V('ce', ty, op, (a, b))


PARAM_ATTRS = {
    'noundef', 'nonnull', 'align', 'dereferenceable', 'dereferenceable_or_null', 'noalias', 'nocapture', 'readonly',
    'writeonly', 'readnone', 'zeroext', 'signext', 'inreg', 'byval', 'sret', 'returned', 'nest', 'immarg', 'nofree',
    'swiftself', 'inalloca', 'preallocated', 'byref', 'noalias', 'captures', 'allocalign', 'allocptr', 'nosync',
    'swifterror', 'elementtype'
}
CAST_OPS = {'bitcast', 'ptrtoint', 'inttoptr', 'trunc', 'zext', 'sext', 'fptosi', 'fptoui', 'sitofp', 'uitofp',
            'fpext', 'fptrunc', 'addrspacecast'}
BIN_OPS = {'add', 'sub', 'mul', 'udiv', 'sdiv', 'urem', 'srem', 'shl', 'lshr', 'ashr', 'and', 'or', 'xor', 'fadd',
           'fsub', 'fmul', 'fdiv', 'frem'}
CONST_EXPR_OPS = {'getelementptr', 'icmp', 'fcmp', 'select'} | CAST_OPS | BIN_OPS


def decode_cstr(tok):
    s = tok[2:-1]
    out = bytearray()
    i = 0
    while i < len(s):
        c = s[i]
        if c == '\\':
            if s[i + 1] == '\\':
                out.append(92)
                i += 2
            else:
                out.append(int(s[i + 1:i + 3], 16))
                i += 3
        else:
            out.append(ord(c))
            i += 1
    return bytes(out)


# ----------------------------------------------------------------------------- module
class Func:
    def __init__(self):
        self.name = None
        self.ret = None
        self.params = []   # [(ty, name, attrs)]
        self.va = False
        self.attrs = set()
        self.lines = None  # body lines or None for declarations
        self.personality = False


class Global:
    def __init__(self):
        self.name = None
        self.ty = None
        self.init_toks = None
        self.external = False
        self.const = False


FN_LINE_SKIP = {'dso_local', 'dso_preemptable', 'internal', 'private', 'linkonce_odr', 'linkonce', 'weak_odr', 'weak',
                'available_externally', 'external', 'hidden', 'protected', 'default', 'unnamed_addr',
                'local_unnamed_addr', 'extern_weak', 'common', 'appending', 'thread_local', 'fastcc', 'ccc', 'coldcc',
                'externally_initialized'}


class Module:
    def __init__(self, text):
        self.T = Types()
        self.funcs = {}
        self.globals = {}
        self.attr_groups = {}
        self.ctors = []
        self.parse(text)

    def parse(self, text):
        lines = text.split('\n')
        i = 0
        n = len(lines)
        while i < n:
            ln = lines[i]
            if not ln or ln[0] == ';' or ln.startswith('source_filename') or ln.startswith('target ') or ln[0] == '!' or ln[0] == '$':
                i += 1
                continue
            if ln.startswith('%') and ' = type ' in ln:
                self.parse_typedef(ln)
            elif ln.startswith('@'):
                self.parse_global(ln)
            elif ln.startswith('declare '):
                self.parse_fn_header(ln[len('declare '):], None)
            elif ln.startswith('define '):
                j = i + 1
                while lines[j] != '}':
                    j += 1
                self.parse_fn_header(ln[len('define '):], lines[i + 1:j])
                i = j
            elif ln.startswith('attributes #'):
                m = re.match(r'attributes (#\d+) = \{(.*)\}', ln)
                words = set(re.findall(r'(?<!")\b[a-z_]+\b(?!")', re.sub(r'"[^"]*"(="[^"]*")?', '', m.group(2))))
                self.attr_groups[m.group(1)] = words
            i += 1

    def parse_typedef(self, ln):
        toks = tokenize(ln)
        name = unq(toks[0][1])
        t = self.T.named_struct(name)
        p = Parser(self.T, toks[3:])
        if p.peek()[1] == 'opaque':
            t.opaque = True
            return
        packed = False
        if p.accept('<'):
            packed = True
        p.expect('{')
        t.fields = p._fields('}')
        t.packed = packed
        t.opaque = False

    def parse_global(self, ln):
        toks = tokenize(ln)
        g = Global()
        g.name = unq(toks[0][1])
        p = Parser(self.T, toks)
        p.i = 2
        while True:
            k, v = p.peek()
            if v in ('global', 'constant'):
                break
            if v == 'alias' or v == 'ifunc':
                return  # not supported / not needed
            if v == 'external' or v == 'extern_weak':
                g.external = True
            p.next()
            if v == 'thread_local' and p.peek()[1] == '(':
                while p.next()[1] != ')':
                    pass
        g.const = p.next()[1] == 'constant'
        g.ty = p.type()
        if not g.external:
            start = p.i
            # the initializer runs until a top-level comma
            g.init_toks = toks[start:]
        self.globals[g.name] = g
        if g.name == 'llvm.global_ctors' and g.init_toks:
            self.ctors = [unq(v) for k, v in g.init_toks if k in ('g', 'gq')]

    def parse_fn_header(self, s, body):
        toks = tokenize(s)
        p = Parser(self.T, toks)
        f = Func()
        while p.peek()[1] in FN_LINE_SKIP:
            p.next()
        p.skip_param_attrs()
        # return type: parse type but do not treat following '(' of the name as fn type -> name is '@..', so safe
        f.ret = p.type()
        k, v = p.next()
        assert k in ('g', 'gq'), (k, v, s[:80])
        f.name = unq(v)
        p.expect('(')
        if not p.accept(')'):
            while True:
                if p.accept('...'):
                    f.va = True
                else:
                    ty = p.type()
                    attrs = p.skip_param_attrs()
                    nm = None
                    if p.peek()[0] in ('l', 'lq'):
                        nm = unq(p.next()[1])
                    f.params.append((ty, nm, attrs))
                if p.accept(')'):
                    break
                p.expect(',')
        while not p.at_end():
            k, v = p.next()
            if k == 'attr':
                f.attrs |= self.attr_groups.get(v, set()) | {v}
            elif k == 'word':
                f.attrs.add(v)
        f.lines = body
        # unnamed params get numbers 0..n-1
        cnt = 0
        ps = []
        for ty, nm, at in f.params:
            if nm is None:
                nm = str(cnt)
            if re.fullmatch(r'\d+', nm):
                cnt = int(nm) + 1
            ps.append((ty, nm, at))
        f.params = ps
        self.funcs[f.name] = f

    def resolve_attr_groups(self):
        for f in self.funcs.values():
            extra = set()
            for a in list(f.attrs):
                if a.startswith('#'):
                    extra |= self.attr_groups.get(a, set())
            f.attrs |= extra


# ----------------------------------------------------------------------------- C emission
def cid(name):
    s = re.sub(r'[^A-Za-z0-9_]', '_', name)
    if not s or s[0].isdigit():
        s = '_' + s
    return s


C_KEYWORDS = {'auto', 'break', 'case', 'char', 'const', 'continue', 'default', 'do', 'double', 'else', 'enum', 'extern',
              'float', 'for', 'goto', 'if', 'int', 'long', 'register', 'return', 'short', 'signed', 'sizeof', 'static',
              'struct', 'switch', 'typedef', 'union', 'unsigned', 'void', 'volatile', 'while', 'inline', 'restrict',
              'main'}

# externals that are passed through untouched (CBMC primitives / harness interface)
PASS_THROUGH_PREFIXES = ('__CPROVER_', 'nondet_', 'verif_')

# typeinfo hierarchy of the std exception classes that models may throw / code may catch
STD_EXC_BASES = {
    '_ZTISt9exception': None,
    '_ZTISt9bad_alloc': '_ZTISt9exception',
    '_ZTISt20bad_array_new_length': '_ZTISt9bad_alloc',
    '_ZTISt11logic_error': '_ZTISt9exception',
    '_ZTISt12length_error': '_ZTISt11logic_error',
    '_ZTISt12out_of_range': '_ZTISt11logic_error',
    '_ZTISt16invalid_argument': '_ZTISt11logic_error',
    '_ZTISt12domain_error': '_ZTISt11logic_error',
    '_ZTISt13runtime_error': '_ZTISt9exception',
    '_ZTISt11range_error': '_ZTISt13runtime_error',
    '_ZTISt14overflow_error': '_ZTISt13runtime_error',
    '_ZTISt12system_error': '_ZTISt13runtime_error',
    '_ZTISt8bad_cast': '_ZTISt9exception',
    '_ZTISt10bad_typeid': '_ZTISt9exception',
    '_ZTISt17bad_function_call': '_ZTISt9exception',
    '_ZTISt12bad_weak_ptr': '_ZTISt9exception',
    '_ZTISt19bad_optional_access': '_ZTISt9exception',
    '_ZTINSt8ios_base7failureB5cxx11E': '_ZTISt12system_error',
    '_ZTINSt10filesystem7__cxx1116filesystem_errorE': '_ZTISt12system_error',
}


class Emitter:
    def __init__(self, mod, args):
        self.m = mod
        self.T = mod.T
        self.fp_uf = args.fp == 'uf'
        self.args = args
        self.override = set(args.override or [])
        self.used_types = set()
        self.used_globals = []
        self.used_globals_set = set()
        self.used_funcs = []
        self.used_funcs_set = set()
        self.gnames = {}
        self.tnames = {}
        self.tname_used = set()
        self.fnty_names = {}
        self.out_funcs = []
        self.typeinfos = {}  # name -> id
        self.storage_votes = {}
        self._payload_cache = {}
        self.final_layouts = False
        self.last_raw = None
        self.warnings = []
        self.info = {'functions': [], 'externals': [], 'stubs': [], 'overridden': []}

    # ---- names
    def gname(self, name):
        c = self.gnames.get(name)
        if c is None:
            c = cid(name)
            if c in C_KEYWORDS:
                c = c + '_'
            if name in self.m.funcs:
                if self.is_passthrough(name):
                    pass
                elif self.is_external(name):
                    c = 'M_' + c          # defined by /verif/models or stubbed
                elif '.' in name:
                    c = 'g_' + c
            else:
                g = self.m.globals.get(name)
                if g is None or g.external or g.init_toks is None:
                    c = 'XG_' + c
                elif name.startswith('.') or '.' in name or not name.startswith('_'):
                    c = 'g_' + c
            base = c
            k = 1
            while c in self.gnames.values():
                c = '%s_%d' % (base, k)
                k += 1
            self.gnames[name] = c
        return c

    # ---- types
    def ct(self, t):
        """C type text (prefix form)"""
        k = t.k
        if k == 'int':
            if t.w == 1:
                return '_Bool'
            if t.w <= 8:
                return 'uint8_t'
            if t.w <= 16:
                return 'uint16_t'
            if t.w <= 32:
                return 'uint32_t'
            if t.w <= 64:
                return 'uint64_t'
            return 'unsigned __int128'
        if k == 'void':
            return 'void'
        if k == 'float':
            return 'float'
        if k == 'double':
            return 'double'
        if k == 'x86_fp80':
            return 'long double'
        if k == 'ptr':
            e = t.elem
            if e.k == 'void' or (e.k == 'struct' and e.opaque and False):
                return 'void*'
            return self.ct(e) + '*'
        if k == 'struct':
            self.use_type(t)
            return 'struct ' + self.sname(t)
        if k == 'arr':
            self.use_type(t)
            return 'struct ' + self.sname(t)
        if k == 'fn':
            self.use_type(t)
            return self.sname(t)
        if k in ('metadata', 'label', 'token'):
            return 'int'
        raise ValueError('ct: ' + k)

    def sname(self, t):
        n = self.tnames.get(t.id)
        if n is None:
            if t.k == 'struct' and t.name:
                base = 'S_' + cid(t.name)[:60]
            elif t.k == 'struct':
                def code(f):
                    return {'int': 'i%d' % f.w, 'double': 'd', 'float': 'f', 'ptr': 'p', 'x86_fp80': 'ld'}.get(f.k, 't%d' % f.id)
                base = 'L_' + '_'.join(code(f) for f in t.fields)
                if t.packed:
                    base += '_pk'
            elif t.k == 'arr':
                base = 'A%d_%d' % (t.n, t.id)
            else:
                base = 'F%d' % t.id
            n = base
            k = 1
            while n in self.tname_used:
                n = '%s_%d' % (base, k)
                k += 1
            self.tname_used.add(n)
            self.tnames[t.id] = n
        return n

    def use_type(self, t):
        if t.id in self.used_types:
            return
        self.used_types.add(t.id)
        if t.k == 'struct':
            for f in t.fields:
                self.ct(f)
        elif t.k == 'arr':
            self.ct(t.elem)
        elif t.k == 'fn':
            self.ct(t.ret)
            for p in t.params:
                self.ct(p)

    def emit_types(self):
        out = []
        ts = [self.T.all[i] for i in sorted(self.used_types)]
        for t in ts:
            if t.k in ('struct', 'arr'):
                out.append('struct %s;' % self.sname(t))
        for t in ts:
            if t.k == 'fn':
                ps = ', '.join(self.ct(p) for p in t.params)
                if t.va:
                    ps = ps + ', ...' if ps else ''
                elif not ps:
                    ps = 'void'
                out.append('typedef %s %s(%s);' % (self.ct(t.ret), self.sname(t), ps))
        done = set()

        def emit(t):
            if t.id in done:
                return
            done.add(t.id)
            if t.k == 'struct':
                if t.opaque:
                    return
                for f in t.fields:
                    dep(f)
                body = ' '.join('%s f%d;' % (self.ct(f), i) for i, f in enumerate(t.fields))
                if not t.fields:
                    body = ''
                if is_storage_struct(t) and self.storage_payload(t):
                    # the buffer is declared with the members observed through the casts applied to it (offset -> type):
                    # pointer-valued fields of the stored object then stay propagatable constants for CBMC
                    parts = []
                    pos = 0
                    size = layout(t)[0]
                    for off, pt in self.storage_payload(t):
                        if off > pos:
                            parts.append('uint8_t p%d[%d];' % (pos, off - pos))
                        dep(pt)
                        parts.append('%s m%d;' % (self.ct(pt), off))
                        pos = off + layout(pt)[0]
                    if pos < size:
                        parts.append('uint8_t p%d[%d];' % (pos, size - pos))
                    out.append('struct __attribute__((packed, aligned(%d))) %s { %s };' % (8 if size % 8 == 0 else 1, self.sname(t), ' '.join(parts)))
                elif is_bytes_struct(t):
                    # unions (LLVM keeps only the largest member): a byte array, so that partial writes (std::string's
                    # SSO buffer is `union { i64; [8 x i8] }`) stay element-wise constants during symbolic execution
                    sz, al = layout(t)
                    out.append('struct __attribute__((aligned(%d))) %s { uint8_t b[%d]; };' % (al, self.sname(t), sz))
                else:
                    out.append('struct %s%s { %s };' % ('__attribute__((packed)) ' if t.packed else '', self.sname(t), body))
                if not t.name:
                    out.append('#define IR2C_HAVE_%s 1' % self.sname(t))
            elif t.k == 'arr':
                dep(t.elem)
                out.append('struct %s { %s a[%d]; };' % (self.sname(t), self.ct(t.elem), t.n))

        def dep(f):
            if f.k in ('struct', 'arr'):
                emit(f)

        # using ct() above may have registered more types; iterate to fixpoint
        while True:
            before = len(self.used_types)
            for i in sorted(self.used_types):
                t = self.T.all[i]
                if t.k in ('struct', 'arr'):
                    emit(t)
            if len(self.used_types) == before:
                break
        # forward decls for types registered late
        late = [self.T.all[i] for i in sorted(self.used_types) if self.T.all[i] not in ts]
        pre = []
        for t in late:
            if t.k in ('struct', 'arr'):
                pre.append('struct %s;' % self.sname(t))
        return pre + out

    def storage_vote(self, st, off, target):
        self.storage_votes.setdefault(st.id, {}).setdefault(off, {})
        d = self.storage_votes[st.id][off]
        d[target.id] = d.get(target.id, 0) + 1

    def storage_payload(self, st):
        """[(offset, Ty)] non-overlapping members inferred for a storage wrapper, or [] when nothing usable was seen"""
        if st.id in self._payload_cache:
            return self._payload_cache[st.id]
        votes = self.storage_votes.get(st.id) or {}
        size = layout(st)[0]
        out = []
        pos = 0
        for off in sorted(votes):
            if off < pos:
                continue
            best = None
            for tid in votes[off]:
                t = self.T.all[tid]
                if t.k in ('void', 'fn') or (t.k == 'struct' and (t.opaque or is_storage_struct(t))):
                    continue
                sz, al = layout(t)
                if sz == 0 or off % al != 0 or off + sz > size:
                    continue
                if best is None or sz > layout(best)[0]:
                    best = t
            if best is not None:
                out.append((off, best))
                pos = off + layout(best)[0]
        for off, t in out:
            self.ct(t)
        self._payload_cache[st.id] = out
        return out

    # ---- globals / functions usage
    def use_global(self, name):
        if name in self.m.funcs:
            self.use_func(name)
            return
        if name not in self.used_globals_set:
            self.used_globals_set.add(name)
            self.used_globals.append(name)

    def use_func(self, name):
        if name not in self.used_funcs_set:
            self.used_funcs_set.add(name)
            self.used_funcs.append(name)

    # ---- constants
    def fpconst(self, v):
        ty = v.ty
        if v.k == 'fp':
            x = v.a
            if ty.k == 'float':
                return '%sf' % repr(float(x)) if 'e' in repr(float(x)) or '.' in repr(float(x)) else '%s.0f' % x
            return repr(float(x))
        h = v.a
        import struct as _s
        if h.startswith('0xK'):
            # x86_fp80: 80-bit; convert to python float (loses precision, only used for constants like logl args)
            bits = int(h[3:], 16)
            sign = bits >> 79
            exp = (bits >> 64) & 0x7fff
            man = bits & ((1 << 64) - 1)
            if exp == 0 and man == 0:
                val = 0.0
            else:
                val = (man / float(1 << 63)) * (2.0 ** (exp - 16383))
            if sign:
                val = -val
            return '%sL' % repr(val)
        bits = int(h, 16)
        d = _s.unpack('<d', _s.pack('<Q', bits))[0]
        if d != d:
            return '__builtin_nan("")' if ty.k == 'double' else '__builtin_nanf("")'
        if d in (float('inf'), float('-inf')):
            s = '__builtin_inf()' if ty.k == 'double' else '__builtin_inff()'
            return s if d > 0 else '(-%s)' % s
        if ty.k == 'float':
            return '%sf' % repr(d)
        return repr(d)

    def cexpr(self, v, static=False):
        """C expression for a value; static=True inside a global initializer (no compound literals)"""
        k = v.k
        ty = v.ty
        if k == 'local':
            return 'v_' + cid(v.a)
        if k == 'global':
            self.use_global(v.a)
            want = self.ct(ty)
            if v.a in self.m.funcs:
                return '((%s)%s)' % (want, self.gname(v.a))
            return '((%s)&%s)' % (want, self.gname(v.a))
        if k == 'int':
            w = ty.w
            x = v.a & ((1 << w) - 1)
            if w == 1:
                return '1' if x else '0'
            if w <= 32:
                return '((%s)%dU)' % (self.ct(ty), x)
            if w <= 64:
                return '((%s)%dULL)' % (self.ct(ty), x)
            hi = x >> 64
            lo = x & ((1 << 64) - 1)
            return '((((unsigned __int128)%dULL) << 64) | (unsigned __int128)%dULL)' % (hi, lo)
        if k in ('fp', 'fphex'):
            return self.fpconst(v)
        if k == 'null':
            return '((%s)0)' % self.ct(ty)
        if k in ('undef', 'zero'):
            return self.zero(ty, static)
        if k == 'cstr':
            items = ', '.join(str(b) for b in v.a)
            body = '{ { %s } }' % items
            return body if static else '((%s)%s)' % (self.ct(ty), body)
        if k == 'cstruct' and is_bytes_struct(ty):
            raise ValueError('constant of union type %s' % tystr(ty))
        if k == 'cstruct':
            body = '{ %s }' % ', '.join(self.cexpr(f, True) for f in v.a) if v.a else '{ }'
            return body if static else '((%s)%s)' % (self.ct(ty), body)
        if k == 'carray':
            body = '{ { %s } }' % ', '.join(self.cexpr(f, True) for f in v.a)
            return body if static else '((%s)%s)' % (self.ct(ty), body)
        if k == 'ce':
            return self.constexpr(v, static)
        if k == 'md':
            return '0'
        raise ValueError('cexpr ' + k)

    def zero(self, ty, static=False):
        if ty.k in ('int',):
            return '0'
        if ty.k in ('float', 'double', 'x86_fp80'):
            return '0.0'
        if ty.k == 'ptr':
            return '((%s)0)' % self.ct(ty)
        if ty.k == 'struct':
            if not ty.fields:
                return '{ }' if static else '((%s){ })' % self.ct(ty)
            return '{ 0 }' if static else '((%s){ 0 })' % self.ct(ty)
        if ty.k == 'arr':
            return '{ { 0 } }' if static else '((%s){ { 0 } })' % self.ct(ty)
        return '0'

    def constexpr(self, v, static):
        op = v.a
        if op == 'getelementptr':
            sty, ops = v.b
            return self.gep_expr(sty, ops, static)
        if op in CAST_OPS:
            (src,) = v.b
            return self.cast_expr(op, src.ty, v.ty, self.cexpr(src, static))
        if op in BIN_OPS:
            a, b = v.b
            return self.bin_expr(op, a.ty, self.cexpr(a, static), self.cexpr(b, static), set())
        if op == 'icmp':
            pred, a, b = v.b
            return self.icmp_expr(pred, a.ty, self.cexpr(a, static), self.cexpr(b, static))
        if op == 'select':
            c, a, b = v.b
            return '(%s ? %s : %s)' % (self.cexpr(c, static), self.cexpr(a, static), self.cexpr(b, static))
        raise ValueError('constexpr ' + op)

    # ---- expression helpers
    def gep_expr(self, sty, ops, static=False):
        self.last_raw = None
        base = ops[0]
        b = self.cexpr(base, static)
        cur = sty
        idx0 = ops[1] if len(ops) > 1 else None
        if cur.k == 'void' or (cur.k == 'struct' and cur.opaque) or cur.k == 'fn':
            # only byte-less indexing possible; treat as i8
            if idx0 is not None and not (idx0.k == 'int' and idx0.a == 0):
                raise ValueError('gep on unsized type')
            return b
        if idx0 is None:
            return b
        if idx0.k == 'int' and idx0.a == 0:
            lv = '(*%s)' % b
        else:
            lv = '%s[%s]' % (b, self.sidx(idx0, static))
        raw = None
        for ix in ops[2:]:
            if cur.k == 'struct':
                assert ix.k == 'int'
                if raw is not None and lv is raw:
                    # still inside a raw storage buffer (the aligned_storage union / its byte array): offset 0 members only
                    if ix.a != 0:
                        raise ValueError('non-zero member inside a storage buffer')
                    cur = cur.fields[0]
                    continue
                if is_storage_struct(cur):
                    # raw buffer: address bytes relative to the wrapper itself (valid whatever payload type is chosen later)
                    raw = lv
                    cur = cur.fields[0]
                    continue
                if is_bytes_struct(cur):
                    ft = cur.fields[ix.a]
                    lv = '(*(%s*)&%s.b[%d])' % (self.ct(ft), lv, field_offset(cur, ix.a))
                    cur = ft
                    continue
                lv = '%s.f%d' % (lv, ix.a)
                cur = cur.fields[ix.a]
            elif cur.k == 'arr':
                if raw is not None and lv is raw:
                    lv = '((uint8_t*)&%s)[%s]' % (lv, self.sidx(ix, static))
                else:
                    lv = '%s.a[%s]' % (lv, self.sidx(ix, static))
                cur = cur.elem
            else:
                raise ValueError('gep through ' + cur.k)
        self.ct(cur)
        self.last_raw = raw
        if raw is not None and lv is raw:
            return '((%s*)&%s)' % (self.ct(cur), lv)
        return '(&%s)' % lv

    def sidx(self, ix, static=False):
        if ix.k == 'int':
            w = ix.ty.w
            x = ix.a & ((1 << w) - 1)
            if x >= 1 << (w - 1):
                x -= 1 << w
            return str(x)
        e = self.cexpr(ix, static)
        w = ix.ty.w
        return '(%s)%s' % ({8: 'int8_t', 16: 'int16_t', 32: 'int32_t', 64: 'int64_t'}.get(w, 'int64_t'), e)

    def sty(self, ty):
        w = ty.w
        if w <= 8:
            return 'int8_t'
        if w <= 16:
            return 'int16_t'
        if w <= 32:
            return 'int32_t'
        if w <= 64:
            return 'int64_t'
        return '__int128'

    def mask(self, ty, e):
        """wrap an expression computed in the container type back to iN"""
        w = ty.w
        if w in (8, 16, 32, 64, 128):
            return '((%s)(%s))' % (self.ct(ty), e)
        if w == 1:
            return '((_Bool)((%s) & 1))' % e
        return '((%s)((%s) & %s))' % (self.ct(ty), e, hex((1 << w) - 1) + 'ULL')

    def sext_to_container(self, ty, e):
        """signed value of iN expression e, as signed container"""
        w = ty.w
        if w in (8, 16, 32, 64, 128):
            return '((%s)%s)' % (self.sty(ty), e)
        if w == 1:
            return '(-(int8_t)%s)' % e
        cw = 8 if w < 8 else 16 if w < 16 else 32 if w < 32 else 64 if w < 64 else 128
        sh = cw - w
        return '((%s)((%s)(%s << %d)) >> %d)' % (self.sty(ty), self.sty(ty), '(%s)%s' % (self.ct(ty), e), sh, sh)

    def bin_expr(self, op, ty, a, b, flags):
        if ty.k in ('float', 'double', 'x86_fp80'):
            if self.fp_uf and ty.k == 'double':
                return '__ir2c_%s(%s, %s)' % (op, a, b)
            cop = {'fadd': '+', 'fsub': '-', 'fmul': '*', 'fdiv': '/'}.get(op)
            if cop:
                return '(%s %s %s)' % (a, cop, b)
            if op == 'frem':
                return 'fmod(%s, %s)' % (a, b)
        w = ty.w
        if w == 1:
            cop = {'and': '&', 'or': '|', 'xor': '^', 'add': '^', 'sub': '^', 'mul': '&'}.get(op)
            if cop:
                return '((_Bool)(%s %s %s))' % (a, cop, b)
        if op in ('add', 'sub', 'mul', 'and', 'or', 'xor', 'udiv', 'urem'):
            cop = {'add': '+', 'sub': '-', 'mul': '*', 'and': '&', 'or': '|', 'xor': '^', 'udiv': '/', 'urem': '%'}[op]
            ct = self.ct(ty)
            if w < 32:
                # avoid int promotion surprises
                return self.mask(ty, '(uint32_t)%s %s (uint32_t)%s' % (a, cop, b))
            return self.mask(ty, '%s %s %s' % (a, cop, b))
        if op in ('shl', 'lshr'):
            cop = '<<' if op == 'shl' else '>>'
            if w < 32:
                return self.mask(ty, '(uint32_t)%s %s (uint32_t)%s' % (a, cop, b))
            return self.mask(ty, '%s %s %s' % (a, cop, b))
        if op == 'ashr':
            return self.mask(ty, '%s >> %s' % (self.sext_to_container(ty, a), b))
        if op in ('sdiv', 'srem'):
            fn = '__ir2c_%s%d' % (op, 64 if w > 32 else 32)
            if w > 64:
                cop = '/' if op == 'sdiv' else '%'
                return self.mask(ty, '%s %s %s' % (self.sext_to_container(ty, a), cop, self.sext_to_container(ty, b)))
            return self.mask(ty, '%s(%s, %s)' % (fn, self.sext_to_container(ty, a), self.sext_to_container(ty, b)))
        raise ValueError('bin ' + op)

    def icmp_expr(self, pred, ty, a, b):
        if ty.k == 'ptr':
            cop = {'eq': '==', 'ne': '!=', 'ult': '<', 'ule': '<=', 'ugt': '>', 'uge': '>=', 'slt': '<', 'sle': '<=',
                   'sgt': '>', 'sge': '>='}[pred]
            if pred in ('eq', 'ne'):
                if b.startswith('((') and b.endswith(')0)'):
                    return '((void*)%s %s (void*)0)' % (a, cop)
                return '(%sIR2C_PTREQ(%s, %s))' % ('' if pred == 'eq' else '!', a, b)
            return 'IR2C_PTRCMP(%s, %s, %s)' % (a, cop, b)
        if pred in ('eq', 'ne'):
            return '(%s %s %s)' % (a, '==' if pred == 'eq' else '!=', b)
        cop = {'lt': '<', 'le': '<=', 'gt': '>', 'ge': '>='}[pred[1:]]
        if pred[0] == 'u':
            if ty.w < 32:
                return '((uint32_t)%s %s (uint32_t)%s)' % (a, cop, b)
            return '(%s %s %s)' % (a, cop, b)
        return '(%s %s %s)' % (self.sext_to_container(ty, a), cop, self.sext_to_container(ty, b))

    def fcmp_expr(self, pred, ty, a, b):
        if self.fp_uf and ty.k == 'double':
            if pred == 'uno':
                return '0'
            if pred == 'ord':
                return '1'
            if pred == 'true':
                return '1'
            if pred == 'false':
                return '0'
            cop = {'oeq': '==', 'ueq': '==', 'one': '!=', 'une': '!=', 'olt': '<', 'ult': '<', 'ole': '<=',
                   'ule': '<=', 'ogt': '>', 'ugt': '>', 'oge': '>=', 'uge': '>='}[pred]
            return '(%s %s %s)' % (a, cop, b)
        m = {
            'oeq': '(%s == %s)', 'one': '(%s < %s || %s > %s)', 'olt': '(%s < %s)', 'ole': '(%s <= %s)',
            'ogt': '(%s > %s)', 'oge': '(%s >= %s)', 'une': '(%s != %s)', 'ueq': '(!(%s < %s || %s > %s))',
            'ult': '(!(%s >= %s))', 'ule': '(!(%s > %s))', 'ugt': '(!(%s <= %s))', 'uge': '(!(%s < %s))',
            'ord': '(%s == %s && %s == %s)', 'uno': '(%s != %s || %s != %s)', 'true': '1', 'false': '0',
        }[pred]
        if pred in ('ord', 'uno'):
            return m % (a, a, b, b)
        if m.count('%s') == 4:
            return m % (a, b, a, b)
        if m.count('%s') == 2:
            return m % (a, b)
        return m

    def cast_expr(self, op, sty, dty, e):
        d = self.ct(dty)
        if op in ('bitcast', 'addrspacecast'):
            if sty.k == 'ptr' and dty.k == 'ptr':
                return '((%s)%s)' % (d, e)
            if sty.k == dty.k:
                return e
            # int <-> fp of same size
            if sty.k == 'double' and dty.k == 'int':
                return '__ir2c_d2u(%s)' % e
            if sty.k == 'int' and dty.k == 'double':
                return '__ir2c_u2d(%s)' % e
            if sty.k == 'float' and dty.k == 'int':
                return '__ir2c_f2u(%s)' % e
            if sty.k == 'int' and dty.k == 'float':
                return '__ir2c_u2f(%s)' % e
            raise ValueError('bitcast %s -> %s' % (tystr(sty), tystr(dty)))
        if op == 'ptrtoint':
            return self.mask(dty, '(uint64_t)%s' % e)
        if op == 'inttoptr':
            return '((%s)(uint64_t)%s)' % (d, e)
        if op == 'trunc':
            return self.mask(dty, e)
        if op == 'zext':
            return '((%s)%s)' % (d, e)
        if op == 'sext':
            return self.mask(dty, '(%s)%s' % (self.sty(dty), self.sext_to_container(sty, e)))
        if op in ('fptosi',):
            return self.mask(dty, '(%s)%s' % (self.sty(dty), e))
        if op == 'fptoui':
            return self.mask(dty, '(%s)%s' % (self.ct(dty) if dty.w > 1 else 'uint8_t', e))
        if op == 'sitofp':
            return '((%s)%s)' % (d, self.sext_to_container(sty, e))
        if op == 'uitofp':
            return '((%s)%s)' % (d, e)
        if op in ('fpext', 'fptrunc'):
            return '((%s)%s)' % (d, e)
        raise ValueError('cast ' + op)

    # ---- functions
    def fn_sig(self, f, external):
        if external:
            ret = 'void*' if f.ret.k == 'ptr' else self.ct(f.ret)
            ps = ', '.join(('void*' if t.k == 'ptr' else self.ct(t)) for t, n, a in f.params)
        else:
            ret = self.ct(f.ret)
            ps = ', '.join('%s v_%s' % (self.ct(t), cid(n)) for t, n, a in f.params)
        if f.va:
            ps = (ps + ', ...') if ps else '...'
            if not f.params:
                ps = ''
        elif not ps:
            ps = 'void'
        return '%s %s(%s)' % (ret, self.gname(f.name), ps)

    def is_passthrough(self, name):
        return name.startswith(PASS_THROUGH_PREFIXES)

    def is_external(self, name):
        f = self.m.funcs.get(name)
        return f is None or f.lines is None or name in self.override

    def may_throw(self, callee_name, site_attrs):
        if 'nounwind' in site_attrs:
            return False
        if callee_name is None:
            return True
        if callee_name.startswith('llvm.') or self.is_passthrough(callee_name):
            return False
        f = self.m.funcs.get(callee_name)
        if f is not None and 'nounwind' in f.attrs:
            return False
        return True


def join_instruction_lines(lines):
    """merge continuation lines (invoke's 'to label', landingpad clauses, switch tables)"""
    out = []
    i = 0
    n = len(lines)
    while i < n:
        ln = lines[i]
        s = ln.strip()
        if not s or s.startswith(';'):
            i += 1
            continue
        if re.match(r'^[-a-zA-Z$._0-9"]+:', s) or re.match(r'^"[^"]*":', s):
            out.append(('label', s))
            i += 1
            continue
        cur = s
        if s.startswith('switch ') or ' switch ' in s[:20]:
            while not (cur.rstrip().endswith(']') or lines[i].strip().startswith(']')):
                i += 1
                cur += ' ' + lines[i].strip()
        else:
            while i + 1 < n:
                nx = lines[i + 1].strip()
                if nx.startswith(('to label', 'catch ', 'cleanup', 'filter ')) :
                    cur += ' ' + nx
                    i += 1
                else:
                    break
        out.append(('inst', cur))
        i += 1
    return out


class FnTranslator:
    def __init__(self, em, f):
        self.em = em
        self.f = f
        self.T = em.T
        self.locals = {}   # name -> Ty
        self.decls = []
        self.body = []
        self.blocks = []   # [(label, [inst tokens...])]
        self.phis = {}     # block -> [(dest, ty, [(val, pred)])]
        self.lin = {}
        self.abuf = {}
        self.raw_lv = {}
        self.tmpn = 0

    def ret_default(self):
        rt = self.f.ret
        if rt.k == 'void':
            return 'return;'
        return 'return %s;' % self.em.zero(rt)

    def translate(self):
        em = self.em
        f = self.f
        items = join_instruction_lines(f.lines)
        # split into blocks
        cur_label = None
        cur = []
        first = True
        blocks = []
        # entry block label: number after params
        for kind, s in items:
            if kind == 'label':
                if first and not cur:
                    cur_label = s.split(':')[0]
                else:
                    blocks.append((cur_label, cur))
                    cur_label = s[:s.index(':')] if not s.startswith('"') else s[:s.rindex('":') + 1]
                    cur = []
                first = False
            else:
                first = False
                cur.append(s)
        blocks.append((cur_label, cur))
        if blocks[0][0] is None:
            # implicit entry label = next unnamed number
            cnt = 0
            for t, n, a in f.params:
                if re.fullmatch(r'\d+', n):
                    cnt = int(n) + 1
            blocks[0] = (str(cnt), blocks[0][1])
        self.blocks = [(lbl.strip('"') if lbl.startswith('"') else lbl, insts) for lbl, insts in blocks]
        # first pass: parse all instructions
        parsed = []
        for lbl, insts in self.blocks:
            pi = []
            for s in insts:
                try:
                    pi.append(self.parse_inst(s))
                except Exception as e:
                    raise RuntimeError('in %s: cannot parse %r: %s' % (f.name, s[:200], e))
            parsed.append((lbl, pi))
        self.defs = {}
        for lbl, pi in parsed:
            for i_ in pi:
                if i_.get('dest') is not None:
                    self.defs[i_['dest']] = i_
        # typed heap allocation: the first non-i8 pointer type an operator-new result is bitcast to
        self.new_type = {}
        for lbl, pi in parsed:
            for i_ in pi:
                if i_['op'] == 'bitcast' and i_['v'].k == 'local' and i_['ty'].k == 'ptr':
                    src = self.defs.get(i_['v'].a)
                    if src is not None and src['op'] in ('call', 'invoke') and src['callee'][0] == 'global' and \
                            src['callee'][1] in ('_Znwm', '_Znam') and i_['v'].a not in self.new_type:
                        e = i_['ty'].elem
                        if not (e.k == 'int' and e.w == 8) and e.k != 'void' and not (e.k == 'struct' and e.opaque) and e.k != 'fn':
                            self.new_type[i_['v'].a] = e
        # collect phis per block
        for lbl, pi in parsed:
            ph = [i for i in pi if i['op'] == 'phi']
            self.phis[lbl] = ph
        # lay the blocks out in reverse post-order so that only genuine loop back-edges are backward gotos (CBMC treats
        # every backward goto as a loop to unwind; LLVM's block order contains many that are not)
        succs = {}
        for lbl, pi in parsed:
            ss = []
            if pi:
                t_ = pi[-1]
                if t_['op'] == 'br':
                    ss = [t_['t']] + ([t_['e']] if t_['cond'] is not None else [])
                elif t_['op'] == 'switch':
                    ss = [t_['default']] + [l for _, l in t_['cases']]
                elif t_['op'] == 'invoke':
                    ss = [t_['normal'], t_['unwind']]
            succs[lbl] = ss
        order = []
        seen = set()
        stack = [(parsed[0][0], iter(succs[parsed[0][0]]))]
        seen.add(parsed[0][0])
        while stack:
            node, it = stack[-1]
            adv = False
            for nx in it:
                if nx not in seen and nx in succs:
                    seen.add(nx)
                    stack.append((nx, iter(succs[nx])))
                    adv = True
                    break
            if not adv:
                order.append(node)
                stack.pop()
        order.reverse()
        byl = dict(parsed)
        parsed = [(l, byl[l]) for l in order]   # unreachable blocks are dropped
        # emit
        for t, n, a in f.params:
            self.locals[n] = t
        for lbl, pi in parsed:
            for i_ in pi:
                if i_['op'] == 'phi':
                    self.locals[i_['dest']] = i_['ty']
        body = self.body
        for bi, (lbl, pi) in enumerate(parsed):
            body.append('L_%s:;' % cid(lbl))
            self.cur_block = lbl
            for ins in pi:
                if ins['op'] == 'phi':
                    continue
                try:
                    self.emit_inst(ins)
                except Exception as e:
                    raise RuntimeError('in %s: cannot emit %r: %s' % (f.name, ins.get('src', '')[:200], e))
        # declarations
        decl = []
        pnames = set(n for t, n, a in f.params)
        for n, t in self.locals.items():
            if n in pnames:
                continue
            if t.k == 'void':
                continue
            decl.append('  %s v_%s;' % (em.ct(t), cid(n)))
        hdr = em.fn_sig(f, False)
        return hdr + ' {\n' + '\n'.join(decl + self.decls) + '\n' + '\n'.join('  ' + b for b in body) + '\n}\n'

    # ---- parsing one instruction into a dict
    def parse_inst(self, s):
        toks = tokenize(s)
        # strip trailing metadata ", !tbaa !5" and ", align N" handled per-op
        p = Parser(self.T, toks)
        ins = {'src': s}
        dest = None
        if p.peek()[0] in ('l', 'lq') and p.peek(1)[1] == '=':
            dest = unq(p.next()[1])
            p.next()
        ins['dest'] = dest
        k, op = p.next()
        # call prefixes
        if op in ('tail', 'musttail', 'notail'):
            k, op = p.next()
        ins['op'] = op
        if op in BIN_OPS:
            flags = set()
            while p.peek()[1] in ('nuw', 'nsw', 'exact', 'fast', 'nnan', 'ninf', 'nsz', 'arcp', 'contract', 'afn',
                                  'reassoc'):
                flags.add(p.next()[1])
            ty = p.type()
            a = p.value(ty)
            p.expect(',')
            b = p.value(ty)
            ins.update(ty=ty, a=a, b=b, flags=flags)
        elif op == 'fneg':
            while p.peek()[1] in ('fast', 'nnan', 'ninf', 'nsz', 'arcp', 'contract', 'afn', 'reassoc'):
                p.next()
            ty = p.type()
            ins.update(ty=ty, a=p.value(ty))
        elif op in ('icmp', 'fcmp'):
            while p.peek()[1] in ('fast', 'nnan', 'ninf', 'nsz', 'arcp', 'contract', 'afn', 'reassoc'):
                p.next()
            pred = p.next()[1]
            ty = p.type()
            a = p.value(ty)
            p.expect(',')
            b = p.value(ty)
            ins.update(pred=pred, ty=ty, a=a, b=b)
        elif op in CAST_OPS:
            v = p.typed_value()
            p.expect('to')
            ins.update(v=v, ty=p.type())
        elif op == 'alloca':
            if p.peek()[1] == 'inalloca':
                p.next()
            ty = p.type()
            cnt = None
            if p.accept(','):
                if p.peek()[1] != 'align' and p.peek()[1] != 'addrspace':
                    cnt = p.typed_value()
            ins.update(ty=ty, cnt=cnt)
        elif op == 'load':
            while p.peek()[1] in ('volatile', 'atomic'):
                p.next()
            ty = p.type()
            p.expect(',')
            ins.update(ty=ty, ptr=p.typed_value())
        elif op == 'store':
            while p.peek()[1] in ('volatile', 'atomic'):
                p.next()
            v = p.typed_value()
            p.expect(',')
            ins.update(v=v, ptr=p.typed_value())
        elif op == 'getelementptr':
            p.accept('inbounds')
            sty = p.type()
            ops = []
            while p.accept(','):
                if p.peek()[0] == 'md':
                    break
                ops.append(p.typed_value())
            ins.update(sty=sty, ops=ops)
        elif op == 'select':
            while p.peek()[1] in ('fast', 'nnan', 'ninf', 'nsz', 'arcp', 'contract', 'afn', 'reassoc'):
                p.next()
            c = p.typed_value()
            p.expect(',')
            a = p.typed_value()
            p.expect(',')
            b = p.typed_value()
            ins.update(c=c, a=a, b=b)
        elif op == 'phi':
            while p.peek()[1] in ('fast', 'nnan', 'ninf', 'nsz', 'arcp', 'contract', 'afn', 'reassoc'):
                p.next()
            ty = p.type()
            inc = []
            while True:
                p.expect('[')
                v = p.value(ty)
                p.expect(',')
                lbl = unq(p.next()[1])
                p.expect(']')
                inc.append((v, lbl))
                if not p.accept(','):
                    break
                if p.peek()[0] == 'md':
                    break
            ins.update(ty=ty, inc=inc)
        elif op == 'br':
            if p.peek()[1] == 'label':
                p.next()
                ins.update(cond=None, t=unq(p.next()[1]))
            else:
                c = p.typed_value()
                p.expect(',')
                p.expect('label')
                t = unq(p.next()[1])
                p.expect(',')
                p.expect('label')
                e = unq(p.next()[1])
                ins.update(cond=c, t=t, e=e)
        elif op == 'switch':
            v = p.typed_value()
            p.expect(',')
            p.expect('label')
            d = unq(p.next()[1])
            p.expect('[')
            cases = []
            while not p.accept(']'):
                cv = p.typed_value()
                p.expect(',')
                p.expect('label')
                cases.append((cv, unq(p.next()[1])))
            ins.update(v=v, default=d, cases=cases)
        elif op == 'ret':
            ty = p.type()
            ins.update(ty=ty, v=None if ty.k == 'void' else p.value(ty))
        elif op in ('call', 'invoke'):
            while p.peek()[1] in ('fast', 'nnan', 'ninf', 'nsz', 'arcp', 'contract', 'afn', 'reassoc', 'fastcc', 'ccc',
                                  'coldcc'):
                p.next()
            p.skip_param_attrs()
            rty = p.type()  # may be a full function type for varargs
            fnty = None
            if rty.k == 'fn':
                fnty = rty
                rty = fnty.ret
            elif rty.k == 'ptr' and rty.elem.k == 'fn' and p.peek()[0] in ('l', 'lq', 'g', 'gq') and False:
                pass
            k2, callee = p.next()
            if k2 in ('g', 'gq'):
                cal = ('global', unq(callee))
            elif k2 in ('l', 'lq'):
                cal = ('local', unq(callee))
            elif callee in ('bitcast', 'inttoptr'):
                # constant-expression callee
                p.i -= 1
                v = p.value(self.T.ptr(self.T.int(8)))
                cal = ('expr', v)
            elif callee == 'asm':
                raise SyntaxError('inline asm')
            else:
                raise SyntaxError('callee %r' % callee)
            p.expect('(')
            args = []
            if not p.accept(')'):
                while True:
                    ty = p.type()
                    at = p.skip_param_attrs()
                    args.append((p.value(ty), at))
                    if p.accept(')'):
                        break
                    p.expect(',')
            site = set()
            while not p.at_end():
                k3, v3 = p.peek()
                if k3 == 'attr':
                    site |= self.em.m.attr_groups.get(v3, set())
                    p.next()
                elif v3 in ('to', ','):
                    break
                elif k3 == 'word' and v3 in ('nounwind', 'noreturn', 'readnone', 'readonly'):
                    site.add(v3)
                    p.next()
                elif v3 == '[':
                    # operand bundles
                    while p.next()[1] != ']':
                        pass
                else:
                    p.next()
            ins.update(rty=rty, fnty=fnty, callee=cal, args=args, site=site)
            if op == 'invoke':
                p.expect('to')
                p.expect('label')
                n = unq(p.next()[1])
                p.expect('unwind')
                p.expect('label')
                u = unq(p.next()[1])
                ins.update(normal=n, unwind=u)
        elif op == 'landingpad':
            ty = p.type()
            cleanup = False
            clauses = []
            while not p.at_end():
                k2, v2 = p.next()
                if v2 == 'cleanup':
                    cleanup = True
                elif v2 == 'catch':
                    clauses.append(('catch', p.typed_value()))
                elif v2 == 'filter':
                    clauses.append(('filter', p.typed_value()))
            ins.update(ty=ty, cleanup=cleanup, clauses=clauses)
        elif op == 'resume':
            ins.update(v=p.typed_value())
        elif op == 'unreachable':
            pass
        elif op == 'extractvalue':
            v = p.typed_value()
            idx = []
            while p.accept(','):
                if p.peek()[0] == 'md':
                    break
                idx.append(int(p.next()[1]))
            ins.update(v=v, idx=idx)
        elif op == 'insertvalue':
            v = p.typed_value()
            p.expect(',')
            e = p.typed_value()
            idx = []
            while p.accept(','):
                if p.peek()[0] == 'md':
                    break
                idx.append(int(p.next()[1]))
            ins.update(v=v, e=e, idx=idx)
        elif op == 'freeze':
            ins.update(v=p.typed_value())
        elif op == 'atomicrmw':
            p.accept('volatile')
            bop = p.next()[1]
            ptr = p.typed_value()
            p.expect(',')
            v = p.typed_value()
            ins.update(bop=bop, ptr=ptr, v=v)
        elif op == 'cmpxchg':
            p.accept('weak')
            p.accept('volatile')
            ptr = p.typed_value()
            p.expect(',')
            c = p.typed_value()
            p.expect(',')
            nv = p.typed_value()
            ins.update(ptr=ptr, c=c, nv=nv)
        elif op == 'fence':
            pass
        elif op == 'va_arg':
            raise SyntaxError('va_arg')
        else:
            raise SyntaxError('unknown opcode %r' % op)
        return ins

    # ---- linear forms over ptrtoint values: lets (p2i(a) - p2i(b)) + c be emitted as a pointer difference,
    # which CBMC's symbolic execution can constant-fold (vector sizes, capacities)
    def lin_of(self, v):
        if v.k == 'local' and v.a in self.lin:
            return self.lin[v.a]
        if v.k == 'int':
            x = v.a & ((1 << 64) - 1)
            if x >= 1 << 63:
                x -= 1 << 64
            return (x, {}, {})
        if v.k == 'ce' and v.a == 'ptrtoint':
            return (0, {self.em.cexpr(v.b[0]): 1}, {})
        return (0, {}, {self.em.cexpr(v): 1})

    def lin_binop(self, op, d, a, b):
        la = self.lin_of(a)
        lb = self.lin_of(b)
        if not la[1] and not lb[1]:
            return None
        sgn = 1 if op == 'add' else -1
        c = la[0] + sgn * lb[0]
        ptrs = dict(la[1])
        for k, v in lb[1].items():
            ptrs[k] = ptrs.get(k, 0) + sgn * v
        oth = dict(la[2])
        for k, v in lb[2].items():
            oth[k] = oth.get(k, 0) + sgn * v
        ptrs = {k: v for k, v in ptrs.items() if v != 0}
        oth = {k: v for k, v in oth.items() if v != 0}
        if len(ptrs) + len(oth) > 6:
            return None
        self.lin[d] = (c, ptrs, oth)
        pos = [k for k, v in ptrs.items() for _ in range(v) if v > 0]
        neg = [k for k, v in ptrs.items() for _ in range(-v) if v < 0]
        if len(pos) != len(neg) or not pos:
            return None
        terms = ['IR2C_PTRDIFF(%s, %s)' % (p_, n_) for p_, n_ in zip(pos, neg)]
        for k, v in oth.items():
            terms.append('(int64_t)%d * (int64_t)%s' % (v, k))
        if c:
            terms.append('(int64_t)%dLL' % c)
        return '((uint64_t)(%s))' % ' + '.join(terms)

    def storage_at_zero(self, t):
        """the storage struct found at offset 0 of type t (t itself, or nested first members), else None"""
        for _ in range(8):
            if t.k != 'struct' or t.opaque or not t.fields:
                return None
            if is_storage_struct(t):
                return t
            t = t.fields[0]
        return None

    def contains_storage(self, t, st):
        return self.storage_at_zero(t) is st

    def storage_of(self, v):
        """(storage wrapper Ty, byte offset) addressed by pointer value v, or None"""
        if v.k == 'local' and v.a in self.abuf:
            return self.abuf[v.a]
        if v.ty.k == 'ptr':
            st = self.storage_at_zero(v.ty.elem)
            if st is not None:
                return (st, 0)
        return None

    def gep_storage(self, ins):
        ops = ins['ops']
        base = self.storage_of(ops[0]) if ops[0].k == 'local' and ops[0].a in self.abuf else None
        cur = ins['sty']
        if base is not None:
            # gep on an already tracked pointer: only plain byte/element offsets with constant indices
            if not all(ix.k == 'int' for ix in ops[1:]):
                return None
            st, off = base
            esz = layout(cur)[0]
            off += self._sint(ops[1]) * esz
            for ix in ops[2:]:
                if cur.k == 'struct':
                    off += field_offset(cur, ix.a)
                    cur = cur.fields[ix.a]
                else:
                    off += self._sint(ix) * layout(cur.elem)[0]
                    cur = cur.elem
            return (st, off)
        if len(ops) < 2 or not (ops[1].k == 'int' and ops[1].a == 0):
            return None
        st = None
        off = 0
        for ix in ops[2:]:
            if st is None and cur.k == 'struct' and is_storage_struct(cur):
                st = cur
            if cur.k == 'struct':
                if ix.k != 'int':
                    return None
                if st is not None:
                    off += field_offset(cur, ix.a)
                cur = cur.fields[ix.a]
            else:
                if ix.k != 'int':
                    return None
                if st is not None:
                    off += self._sint(ix) * layout(cur.elem)[0]
                cur = cur.elem
        if st is None:
            st = self.storage_at_zero(cur)
            if st is None:
                return None
        return (st, off)

    def _sint(self, ix):
        w = ix.ty.w
        x = ix.a & ((1 << w) - 1)
        return x - (1 << w) if x >= 1 << (w - 1) else x

    def fp_lit(self, v):
        if v.k == 'fp':
            return float(v.a)
        if v.k == 'fphex' and not v.a.startswith('0xK'):
            import struct as _s
            return _s.unpack('<d', _s.pack('<Q', int(v.a, 16)))[0]
        return None

    # ---- emission
    def chk_mem(self, ty):
        if ty.k == 'int' and ty.w not in (1, 8, 16, 32, 64, 128):
            raise ValueError('memory access of odd-width integer i%d' % ty.w)

    def setl(self, name, ty, expr):
        self.locals[name] = ty
        self.body.append('v_%s = %s;' % (cid(name), expr))

    def goto(self, target):
        """goto with phi copies for edge cur_block -> target"""
        ph = self.phis.get(target, [])
        if not ph:
            return 'goto L_%s;' % cid(target)
        em = self.em
        parts = []
        tmps = []
        for p_ in ph:
            self.locals[p_['dest']] = p_['ty']
            val = None
            for v, lbl in p_['inc']:
                if lbl == self.cur_block:
                    val = v
                    break
            if val is None:
                raise RuntimeError('phi %s has no incoming for %s' % (p_['dest'], self.cur_block))
            if val.k == 'undef':
                continue
            self.tmpn += 1
            tn = '__t%d' % self.tmpn
            parts.append('%s %s = %s;' % (em.ct(p_['ty']), tn, em.cexpr(val)))
            tmps.append((p_['dest'], tn))
        for d, tn in tmps:
            parts.append('v_%s = %s;' % (cid(d), tn))
        return '{ %s goto L_%s; }' % (' '.join(parts), cid(target))

    def emit_inst(self, ins):
        em = self.em
        op = ins['op']
        d = ins['dest']
        B = self.body
        if op in BIN_OPS:
            if op in ('add', 'sub') and ins['ty'].k == 'int' and ins['ty'].w == 64:
                e = self.lin_binop(op, d, ins['a'], ins['b'])
                if e is not None:
                    self.setl(d, ins['ty'], e)
                    return
            if em.fp_uf and ins['ty'].k == 'double' and op in ('fadd', 'fsub', 'fmul', 'fdiv'):
                # literal-constant identities decided at translation time (no case split reaches the solver):
                # x+0 = x, x-0 = x, 0+x = x (signed zeros identified); x*1 = x, 1*x = x, x/1 = x (exact)
                ka, kb = self.fp_lit(ins['a']), self.fp_lit(ins['b'])
                keep = None
                if op == 'fadd' and kb == 0.0:
                    keep = ins['a']
                elif op == 'fadd' and ka == 0.0:
                    keep = ins['b']
                elif op == 'fsub' and kb == 0.0:
                    keep = ins['a']
                elif op == 'fmul' and kb == 1.0:
                    keep = ins['a']
                elif op == 'fmul' and ka == 1.0:
                    keep = ins['b']
                elif op == 'fdiv' and kb == 1.0:
                    keep = ins['a']
                if keep is not None:
                    self.setl(d, ins['ty'], em.cexpr(keep))
                    return
                # x + select(c, +-0.0, v)  ==>  c ? x : x + v   (clang's if-conversion of a guarded accumulation)
                if op in ('fadd', 'fsub'):
                    for side in (('b', 'a'),) + ((('a', 'b'),) if op == 'fadd' else ()):
                        sv, ov = ins[side[0]], ins[side[1]]
                        sd = self.defs.get(sv.a) if sv.k == 'local' else None
                        if sd is not None and sd['op'] == 'select':
                            za, zb = self.fp_lit(sd['a']), self.fp_lit(sd['b'])
                            if za == 0.0 or zb == 0.0:
                                c = em.cexpr(sd['c'])
                                o = em.cexpr(ov)
                                def app(v):
                                    x, y = (o, em.cexpr(v)) if side[0] == 'b' else (em.cexpr(v), o)
                                    return em.bin_expr(op, ins['ty'], x, y, ins['flags'])
                                ea = o if za == 0.0 else app(sd['a'])
                                eb = o if zb == 0.0 else app(sd['b'])
                                self.setl(d, ins['ty'], '(%s ? %s : %s)' % (c, ea, eb))
                                return
            self.setl(d, ins['ty'], em.bin_expr(op, ins['ty'], em.cexpr(ins['a']), em.cexpr(ins['b']), ins['flags']))
        elif op == 'fneg':
            if em.fp_uf and ins['ty'].k == 'double':
                self.setl(d, ins['ty'], '__ir2c_fneg(%s)' % em.cexpr(ins['a']))
            else:
                self.setl(d, ins['ty'], '(-%s)' % em.cexpr(ins['a']))
        elif op == 'icmp':
            self.setl(d, self.T.int(1), em.icmp_expr(ins['pred'], ins['ty'], em.cexpr(ins['a']), em.cexpr(ins['b'])))
        elif op == 'fcmp':
            self.setl(d, self.T.int(1), em.fcmp_expr(ins['pred'], ins['ty'], em.cexpr(ins['a']), em.cexpr(ins['b'])))
        elif op in CAST_OPS:
            v = ins['v']
            if op == 'bitcast' and v.ty.k == 'ptr' and ins['ty'].k == 'ptr':
                so = self.storage_of(v)
                if so is not None:
                    st, off = so
                    tgt = ins['ty'].elem
                    if not (tgt.k == 'int' and tgt.w == 8) and self.storage_at_zero(tgt) is not st:
                        em.storage_vote(st, off, tgt)
                    self.abuf[d] = so
            if op == 'ptrtoint' and ins['ty'].w == 64:
                self.lin[d] = (0, {em.cexpr(v): 1}, {})
            self.setl(d, ins['ty'], em.cast_expr(op, v.ty, ins['ty'], em.cexpr(v)))
        elif op == 'alloca':
            ty = ins['ty']
            pty = self.T.ptr(ty)
            if ins['cnt'] is not None and not (ins['cnt'].k == 'int' and ins['cnt'].a == 1):
                self.setl(d, pty, '(%s)malloc(sizeof(%s) * %s)' % (em.ct(pty), em.ct(ty), em.cexpr(ins['cnt'])))
            else:
                # stack slots start zeroed (like the heap): LLVM merges small arrays into one wider slot and fills it with narrower
                # stores; over an indeterminate initial value those partial writes never become a constant for CBMC
                init = '{ 0 }' if ty.k in ('struct', 'arr') and not (ty.k == 'struct' and not ty.fields) else ('{ }' if ty.k == 'struct' else '0')
                self.decls.append('  %s s_%s = %s;' % (em.ct(ty), cid(d), init))
                self.setl(d, pty, '&s_%s' % cid(d))
        elif op == 'load':
            self.chk_mem(ins['ty'])
            self.setl(d, ins['ty'], '*%s' % em.cexpr(ins['ptr']))
        elif op == 'store':
            self.chk_mem(ins['v'].ty)
            B.append('*%s = %s;' % (em.cexpr(ins['ptr']), em.cexpr(ins['v'])))
        elif op == 'getelementptr':
            # result type
            cur = ins['sty']
            zero_tail = True
            for ix in ins['ops'][2:]:
                cur = cur.fields[ix.a] if cur.k == 'struct' else cur.elem
            # storage-buffer tracking: a pointer to a constant byte offset inside a __aligned_buffer / __aligned_membuf
            so = self.gep_storage(ins)
            if so is not None:
                self.abuf[d] = so
            gexpr = em.gep_expr(ins['sty'], ins['ops'])
            if so is not None and em.last_raw is not None:
                self.raw_lv[d] = em.last_raw
            self.setl(d, self.T.ptr(cur), gexpr)
        elif op == 'select':
            a = ins['a']
            self.setl(d, a.ty, '(%s ? %s : %s)' % (em.cexpr(ins['c']), em.cexpr(a), em.cexpr(ins['b'])))
        elif op == 'br':
            if ins['cond'] is None:
                B.append(self.goto(ins['t']))
            else:
                B.append('if (%s) %s else %s' % (em.cexpr(ins['cond']), self.goto(ins['t']), self.goto(ins['e'])))
        elif op == 'switch':
            v = ins['v']
            B.append('switch (%s) {' % em.cexpr(v))
            for cv, lbl in ins['cases']:
                B.append('  case %s: %s' % (em.cexpr(cv), self.goto(lbl)))
            B.append('  default: %s' % self.goto(ins['default']))
            B.append('}')
        elif op == 'ret':
            if ins['v'] is None:
                B.append('return;')
            else:
                B.append('return %s;' % em.cexpr(ins['v']))
        elif op in ('call', 'invoke'):
            self.emit_call(ins)
        elif op == 'landingpad':
            self.emit_landingpad(ins)
        elif op == 'resume':
            v = em.cexpr(ins['v'])
            B.append('{ __ir2c_exc_obj = (void*)(%s).f0; __ir2c_exc_pending = 1; %s }' % (v, self.ret_default()))
        elif op == 'unreachable':
            B.append('__IR2C_UNREACHABLE(); %s' % self.ret_default())
        elif op == 'extractvalue':
            v = ins['v']
            if is_bytes_struct(v.ty):
                raise ValueError('extractvalue on union value')
            e = em.cexpr(v)
            cur = v.ty
            for i in ins['idx']:
                if cur.k == 'struct':
                    e = '%s.f%d' % (e, i)
                    cur = cur.fields[i]
                else:
                    e = '%s.a[%d]' % (e, i)
                    cur = cur.elem
            self.setl(d, cur, e)
        elif op == 'insertvalue':
            v = ins['v']
            self.setl(d, v.ty, em.cexpr(v))
            path = 'v_%s' % cid(d)
            cur = v.ty
            for i in ins['idx']:
                if cur.k == 'struct':
                    path = '%s.f%d' % (path, i)
                    cur = cur.fields[i]
                else:
                    path = '%s.a[%d]' % (path, i)
                    cur = cur.elem
            B.append('%s = %s;' % (path, em.cexpr(ins['e'])))
        elif op == 'freeze':
            self.setl(d, ins['v'].ty, em.cexpr(ins['v']))
        elif op == 'atomicrmw':
            ptr = em.cexpr(ins['ptr'])
            v = ins['v']
            self.setl(d, v.ty, '*%s' % ptr)
            bop = ins['bop']
            old = 'v_%s' % cid(d)
            if bop == 'xchg':
                new = em.cexpr(v)
            elif bop in ('add', 'sub', 'and', 'or', 'xor'):
                new = em.bin_expr(bop, v.ty, old, em.cexpr(v), set())
            else:
                raise ValueError('atomicrmw ' + bop)
            B.append('*%s = %s;' % (ptr, new))
        elif op == 'cmpxchg':
            ptr = em.cexpr(ins['ptr'])
            c = ins['c']
            rty = self.T.lit_struct([c.ty, self.T.int(1)], False)
            self.locals[d] = rty
            B.append('v_%s.f0 = *%s; v_%s.f1 = (v_%s.f0 == %s); if (v_%s.f1) *%s = %s;' %
                     (cid(d), ptr, cid(d), cid(d), em.cexpr(c), cid(d), ptr, em.cexpr(ins['nv'])))
        elif op == 'fence':
            pass
        else:
            raise ValueError('emit ' + op)

    # ---- calls
    def emit_call(self, ins):
        em = self.em
        B = self.body
        d = ins['dest']
        rty = ins['rty']
        kind, cal = ins['callee']
        args = ins['args']
        name = cal if kind == 'global' else None
        call_expr = None
        if name is not None and re.match(r'llvm\.[us](add|sub|mul)\.with\.overflow', name):
            ity = args[0][0].ty
            a0 = em.cexpr(args[0][0])
            a1 = em.cexpr(args[1][0])
            self.locals[d] = rty
            kind2 = name.split('.')[1]
            B.append('v_%s.f1 = __builtin_%s_overflow((%s)%s, (%s)%s, (%s*)&v_%s.f0);' % (
                cid(d), kind2[1:], em.sty(ity) if kind2[0] == 's' else em.ct(ity), a0,
                em.sty(ity) if kind2[0] == 's' else em.ct(ity), a1, em.sty(ity) if kind2[0] == 's' else em.ct(ity), cid(d)))
            if ins['op'] == 'invoke':
                B.append(self.goto(ins['normal']))
            return
        if name in ('__CPROVER_assert', '__CPROVER_assume', 'verif_assert', 'verif_assume'):
            c = em.cexpr(args[0][0])
            if name.endswith('assume'):
                B.append('__CPROVER_assume(%s);' % c)
            else:
                B.append('__CPROVER_assert(%s, %s);' % (c, json.dumps(em.const_string(args[1][0]))))
            if ins['op'] == 'invoke':
                B.append(self.goto(ins['normal']))
            return
        if name is not None and name.startswith('llvm.'):
            call_expr = self.intrinsic(name, ins)
            if call_expr is None:
                if ins['op'] == 'invoke':
                    B.append(self.goto(ins['normal']))
                return
        elif name in ('_Znwm', '_Znam') and d is not None and d in self.new_type and 'M_' + name in em.modeled:
            em.use_func(name)
            t = self.new_type[d]
            sz = args[0][0]
            tsz = layout(t)[0]
            ct = em.ct(t)
            if tsz == 0:
                call_expr = '(uint8_t*)%s(%s)' % (em.gname(name), em.cexpr(sz))
            elif sz.k == 'int' and sz.a % tsz == 0 and sz.a // tsz >= 1:
                call_expr = '(uint8_t*)IR2C_NEW_ARRAY(%s, %dULL)' % (ct, sz.a // tsz)
            elif sz.k == 'int':
                call_expr = '(uint8_t*)%s(%s)' % (em.gname(name), em.cexpr(sz))
            else:
                call_expr = '(uint8_t*)IR2C_NEW_DYN(%s, %s)' % (ct, em.cexpr(sz))
        elif name is not None:
            f = em.m.funcs.get(name)
            em.use_func(name)
            ext = em.is_external(name) and not em.is_passthrough(name)
            argv = []
            for i, (v, at) in enumerate(args):
                e = em.cexpr(v)
                if 'byval' in at:
                    self.tmpn += 1
                    tn = '__bv%d' % self.tmpn
                    self.decls.append('  %s %s;' % (em.ct(v.ty.elem), tn))
                    B.append('%s = *%s;' % (tn, e))
                    e = '&%s' % tn
                if ext and v.ty.k == 'ptr':
                    e = '(void*)%s' % e
                elif f is not None and i < len(f.params) and f.params[i][0] is not v.ty and not ext:
                    e = '(%s)%s' % (em.ct(f.params[i][0]), e)
                argv.append(e)
            call_expr = '%s(%s)' % (em.gname(name), ', '.join(argv))
            if ext and rty.k == 'ptr':
                call_expr = '(%s)%s' % (em.ct(rty), call_expr)
            elif f is not None and f.ret is not rty and rty.k != 'void':
                call_expr = '(%s)%s' % (em.ct(rty), call_expr)
        else:
            # indirect call
            if kind == 'local':
                fty = self.locals.get(cal)
                fe = 'v_' + cid(cal)
            else:
                fty = cal.ty
                fe = em.cexpr(cal)
            argv = []
            for v, at in args:
                e = em.cexpr(v)
                if 'byval' in at:
                    self.tmpn += 1
                    tn = '__bv%d' % self.tmpn
                    self.decls.append('  %s %s;' % (em.ct(v.ty.elem), tn))
                    B.append('%s = *%s;' % (tn, e))
                    e = '&%s' % tn
                argv.append(e)
            want = self.T.fn(rty, [v.ty for v, at in args], False) if ins['fnty'] is None else ins['fnty']
            call_expr = '((%s*)%s)(%s)' % (em.ct(want), fe, ', '.join(argv))
        if d is not None and rty.k != 'void':
            self.locals[d] = rty
            B.append('v_%s = %s;' % (cid(d), call_expr))
        else:
            B.append('%s;' % call_expr)
        throws = em.may_throw(name, ins['site'])
        if ins['op'] == 'invoke':
            if throws:
                B.append('if (__ir2c_exc_pending) %s' % self.goto(ins['unwind']))
            B.append(self.goto(ins['normal']))
        elif throws:
            B.append('if (__ir2c_exc_pending) { %s }' % self.ret_default())

    # ---- typed expansion of constant-size memset/memcpy: byte-wise (or CBMC-builtin) writes over pointer-valued struct
    # fields destroy constant propagation of those pointers; per-field typed assignments keep it.
    def typed_region(self, pv, nbytes):
        """resolve pointer value pv (i8* or typed) to (lvalue_expr_of_T, T, byte_offset) covering nbytes, or None"""
        em = self.em
        v = pv
        extra = 0   # constant byte offset accumulated through `gep i8` steps
        for _ in range(6):
            if v.k != 'local':
                break
            d = self.defs.get(v.a)
            if d is None:
                break
            if d['op'] == 'bitcast' and d['v'].ty.k == 'ptr':
                v = d['v']
                continue
            if d['op'] == 'getelementptr' and d['sty'].k == 'int' and d['sty'].w == 8 and len(d['ops']) == 2 and d['ops'][1].k == 'int':
                extra += self._sint(d['ops'][1])
                v = d['ops'][0]
                continue
            break
        if v.ty.k != 'ptr' or extra < 0:
            return None
        if v.k == 'local' and v.a in self.raw_lv and v.a in self.abuf and em.final_layouts:
            st, off = self.abuf[v.a]
            off += extra
            for moff, mt in em.storage_payload(st):
                msz = layout(mt)[0]
                if moff <= off and off + nbytes <= moff + msz:
                    return ('%s.m%d' % (self.raw_lv[v.a], moff), mt, off - moff)
            return None
        t = v.ty.elem
        if t.k in ('void', 'fn') or (t.k == 'struct' and t.opaque) or (t.k == 'int' and t.w == 8):
            return None
        if layout(t)[0] >= extra + nbytes:
            return ('(*%s)' % em.cexpr(v), t, extra)
        if extra:
            return None
        # the region extends past *v: look for the enclosing aggregate through the GEP that produced v
        if v.k == 'local':
            d = self.defs.get(v.a)
            if d is not None and d['op'] == 'getelementptr' and len(d['ops']) >= 3 and d['ops'][1].k == 'int' and d['ops'][1].a == 0 \
                    and all(ix.k == 'int' for ix in d['ops'][2:]):
                # try enclosing levels from innermost to outermost
                path = d['ops'][2:]
                for depth in range(len(path) - 1, -1, -1):
                    cur = d['sty']
                    lv = '(*%s)' % em.cexpr(d['ops'][0])
                    ok = True
                    for ix in path[:depth]:
                        if cur.k == 'struct' and not is_bytes_struct(cur) and not is_storage_struct(cur):
                            lv = '%s.f%d' % (lv, ix.a)
                            cur = cur.fields[ix.a]
                        elif cur.k == 'arr':
                            lv = '%s.a[%d]' % (lv, ix.a)
                            cur = cur.elem
                        else:
                            ok = False
                            break
                    if not ok:
                        continue
                    off = 0
                    c2 = cur
                    for ix in path[depth:]:
                        if c2.k == 'struct':
                            off += field_offset(c2, ix.a)
                            c2 = c2.fields[ix.a]
                        elif c2.k == 'arr':
                            off += ix.a * layout(c2.elem)[0]
                            c2 = c2.elem
                        else:
                            ok = False
                            break
                    if ok and off + nbytes <= layout(cur)[0]:
                        return (lv, cur, off)
        return None

    def leaves(self, t, lv, base, lo, hi, out):
        """scalar leaves of t (lvalue lv at byte offset base) fully inside [lo, hi); returns False if a leaf straddles the range"""
        sz = layout(t)[0]
        if base >= hi or base + sz <= lo:
            return True
        if len(out) > 160:
            return False
        if t.k == 'struct':
            if t.opaque or is_storage_struct(t):
                return False
            if is_bytes_struct(t):
                for i in range(sz):
                    if lo <= base + i < hi:
                        out.append((base + i, self.T.int(8), '%s.b[%d]' % (lv, i)))
                return True
            for i, f in enumerate(t.fields):
                if not self.leaves(f, '%s.f%d' % (lv, i), base + field_offset(t, i), lo, hi, out):
                    return False
            return True
        if t.k == 'arr':
            es = layout(t.elem)[0]
            for i in range(t.n):
                if not self.leaves(t.elem, '%s.a[%d]' % (lv, i), base + i * es, lo, hi, out):
                    return False
            return True
        if base < lo or base + sz > hi:
            return False
        out.append((base, t, lv))
        return True

    def typed_memset(self, args):
        n = args[2]
        if n.k != 'int' or not (0 < n.a <= 1024) or not (args[1].k == 'int' and args[1].a == 0):
            return False
        r = self.typed_region(args[0], n.a)
        if r is None:
            return False
        lv, t, off = r
        out = []
        if not self.leaves(t, lv, 0, off, off + n.a, out) or not out:
            return False
        for o, lt, path in out:
            self.body.append('%s = %s;' % (path, self.em.zero(lt)))
        return True

    def typed_memcpy(self, args):
        n = args[2]
        if n.k != 'int' or not (0 < n.a <= 1024):
            return False
        rd = self.typed_region(args[0], n.a)
        rs = self.typed_region(args[1], n.a)
        if rd is None or rs is None:
            return False
        od, os_ = [], []
        if not self.leaves(rd[1], rd[0], 0, rd[2], rd[2] + n.a, od) or not self.leaves(rs[1], rs[0], 0, rs[2], rs[2] + n.a, os_):
            return False
        if len(od) != len(os_) or not od:
            return False
        for (o1, t1, p1), (o2, t2, p2) in zip(od, os_):
            if o1 - rd[2] != o2 - rs[2] or layout(t1)[0] != layout(t2)[0] or (t1.k == 'ptr') != (t2.k == 'ptr') or \
                    (t1.k in ('float', 'double')) != (t2.k in ('float', 'double')):
                return False
        self.tmpn += 1
        tmps = []
        for i, ((o1, t1, p1), (o2, t2, p2)) in enumerate(zip(od, os_)):
            src = p2 if t1 is t2 else '(%s)%s' % (self.em.ct(t1), p2)
            tmps.append((p1, src))
        # memcpy regions do not overlap, so direct assignment order is irrelevant
        for p1, src in tmps:
            self.body.append('%s = %s;' % (p1, src))
        return True

    def scalar_ptr(self, pv):
        """strip bitcasts: returns (value, scalar element type or None)"""
        v = pv
        for _ in range(4):
            t = v.ty.elem if v.ty.k == 'ptr' else None
            if t is not None and (t.k in ('float', 'double', 'ptr') or (t.k == 'int' and t.w in (16, 32, 64))):
                return v, t
            if v.k != 'local':
                break
            d = self.defs.get(v.a)
            if d is None or d['op'] != 'bitcast' or d['v'].ty.k != 'ptr':
                break
            v = d['v']
        return pv, None

    def typed_array_copy(self, args):
        """constant-size copy between arrays of one scalar type (vector<int> = {..}, vector growth of POD elements):
        element-wise typed assignments keep the contents propagatable constants"""
        n = args[2]
        if n.k != 'int' or not (0 < n.a <= 512):
            return False
        dv, dt = self.scalar_ptr(args[0])
        sv, st = self.scalar_ptr(args[1])
        t = dt or st
        if t is None:
            return False
        if dt is not None and st is not None and (layout(dt)[0] != layout(st)[0] or (dt.k == 'ptr') != (st.k == 'ptr') or
                                                  (dt.k in ('float', 'double')) != (st.k in ('float', 'double'))):
            return False
        esz = layout(t)[0]
        if n.a % esz != 0 or n.a // esz > 64:
            return False
        em = self.em
        ct = em.ct(t)
        de = em.cexpr(args[0] if dt is None else dv)
        se = em.cexpr(args[1] if st is None else sv)
        cnt = n.a // esz
        self.tmpn += 1
        k = self.tmpn
        lines = ['%s __c%d_%d = ((%s*)%s)[%d];' % (ct, k, i, ct, se, i) for i in range(cnt)]
        lines += ['((%s*)%s)[%d] = __c%d_%d;' % (ct, de, i, k, i) for i in range(cnt)]
        self.body.append('{ ' + ' '.join(lines) + ' }')
        return True

    def typed_array_loop(self, kind, args):
        """run-time sized copy between arrays of one scalar type (vector<int>/<double>/<T*> growth and assignment): an
        element-wise typed loop.  The size is concrete during symbolic execution in all our harnesses, so the loop folds and the
        contents stay propagatable constants (CBMC's built-in memcpy/memmove makes the destination opaque)."""
        if args[2].k == 'int':
            return False
        dv, dt = self.scalar_ptr(args[0])
        sv, st = self.scalar_ptr(args[1])
        t = dt or st
        if t is None:
            return False
        if dt is not None and st is not None and (layout(dt)[0] != layout(st)[0] or (dt.k == 'ptr') != (st.k == 'ptr') or
                                                  (dt.k in ('float', 'double')) != (st.k in ('float', 'double'))):
            return False
        em = self.em
        ct = em.ct(t)
        esz = layout(t)[0]
        de = em.cexpr(args[0] if dt is None else dv)
        se = em.cexpr(args[1] if st is None else sv)
        self.tmpn += 1
        k = self.tmpn
        self.body.append(
            '{ uint64_t __n%d = (uint64_t)%s / %d; %s* __d%d = (%s*)%s; %s* __s%d = (%s*)%s; '
            'if (!IR2C_SAME_OBJECT(__d%d, __s%d) || IR2C_PTRCMP(__d%d, <=, __s%d)) { for (uint64_t __i = 0; __i < __n%d; __i++) __d%d[__i] = __s%d[__i]; } '
            'else { for (uint64_t __i = __n%d; __i > 0; __i--) __d%d[__i - 1] = __s%d[__i - 1]; } }'
            % (k, em.cexpr(args[2]), esz, ct, k, ct, de, ct, k, ct, se, k, k, k, k, k, k, k, k, k, k))
        return True

    def intrinsic(self, name, ins):
        em = self.em
        args = [v for v, at in ins['args']]
        a = [em.cexpr(v) for v in args]
        base = name.split('.')
        n1 = base[1]
        if n1 in ('lifetime', 'experimental', 'assume', 'dbg', 'invariant', 'donothing', 'prefetch', 'va_end',
                  'stackprotector'):
            return None
        if n1 == 'var':
            return None
        if n1 == 'memcpy' or n1 == 'memmove':
            if n1 == 'memcpy' and self.typed_memcpy(args):
                return None
            if self.typed_array_copy(args):
                return None
            if self.typed_array_loop(n1, args):
                return None
            return '__ir2c_%s((void*)%s, (const void*)%s, %s)' % (n1, a[0], a[1], a[2])
        if n1 == 'memset':
            if self.typed_memset(args):
                return None
            return '__ir2c_memset((void*)%s, %s, %s)' % (a[0], a[1], a[2])
        ty = ins['rty']
        if n1 in ('umax', 'umin'):
            cop = '>' if n1 == 'umax' else '<'
            return '(%s %s %s ? %s : %s)' % (a[0], cop, a[1], a[0], a[1])
        if n1 in ('smax', 'smin'):
            cop = '>' if n1 == 'smax' else '<'
            return '(%s %s %s ? %s : %s)' % (em.sext_to_container(ty, a[0]), cop, em.sext_to_container(ty, a[1]), a[0], a[1])
        if n1 == 'abs':
            s = em.sext_to_container(ty, a[0])
            return em.mask(ty, '(%s < 0 ? -%s : %s)' % (s, a[0], a[0]))
        if n1 == 'fabs':
            if em.fp_uf and ty.k == 'double':
                return '__ir2c_fabs(%s)' % a[0]
            return '__builtin_fabs(%s)' % a[0]
        if n1 == 'fmuladd' or n1 == 'fma':
            if em.fp_uf and ty.k == 'double':
                return '__ir2c_fadd(__ir2c_fmul(%s, %s), %s)' % (a[0], a[1], a[2])
            return '((%s * %s) + %s)' % (a[0], a[1], a[2])
        if n1 == 'sqrt':
            return 'sqrt(%s)' % a[0]
        if n1 in ('floor', 'ceil', 'trunc', 'round', 'rint', 'nearbyint'):
            return '__builtin_%s(%s)' % (n1, a[0])
        if n1 == 'expect':
            return a[0]
        if n1 == 'trap':
            return '__IR2C_TRAP()'
        if n1 == 'eh':
            # llvm.eh.typeid.for(i8* typeinfo)
            return str(em.typeinfo_id(args[0]))
        if n1 in ('ctlz', 'cttz', 'ctpop', 'bswap'):
            return em.mask(ty, '__ir2c_%s%d(%s)' % (n1, 64 if ty.w > 32 else 32, a[0])) if n1 != 'ctlz' or ty.w in (32, 64) else None
        if n1 in ('usub', 'uadd') and base[2] == 'sat':
            if n1 == 'usub':
                return '(%s > %s ? %s : 0)' % (a[0], a[1], em.mask(ty, '%s - %s' % (a[0], a[1])))
        if n1 == 'va_start':
            return None
        if n1 == 'load' and base[2] == 'relative':
            raise ValueError('llvm.load.relative')
        if n1 in ('fshl', 'fshr'):
            w = ty.w
            if n1 == 'fshl':
                return em.mask(ty, '(%s << (%s %% %d)) | ((%s %% %d) ? (%s >> (%d - (%s %% %d))) : 0)' % (a[0], a[2], w, a[2], w, a[1], w, a[2], w))
            return em.mask(ty, '(%s >> (%s %% %d)) | ((%s %% %d) ? (%s << (%d - (%s %% %d))) : 0)' % (a[1], a[2], w, a[2], w, a[0], w, a[2], w))
        if n1 == 'is' and base[2] == 'constant':
            return '0'
        if n1 == 'objectsize':
            return em.mask(ty, '-1LL')
        raise ValueError('intrinsic ' + name)

    def emit_landingpad(self, ins):
        em = self.em
        B = self.body
        d = ins['dest']
        ty = ins['ty']
        self.locals[d] = ty
        B.append('__ir2c_exc_pending = 0;')
        B.append('v_%s.f0 = (uint8_t*)__ir2c_exc_obj;' % cid(d))
        conds = []
        catch_all = False
        for kind, v in ins['clauses']:
            if kind == 'catch':
                if v.k == 'null':
                    conds.append(('1', '0'))
                    catch_all = True
                    break
                tid = em.typeinfo_id(v)
                tname = em.typeinfo_name(v)
                conds.append((em.exc_match_expr(tname), str(tid)))
            else:
                # filter: treat empty filter (throw()) as match-all leading to unexpected -> terminate
                conds.append(('1', '-1'))
                catch_all = True
                break
        sel = 'v_%s.f1' % cid(d)
        chain = ''
        for c, t in conds:
            chain += 'if (%s) { %s = (uint32_t)%s; } else ' % (c, sel, t)
        if catch_all:
            chain += '{ }'
        elif ins['cleanup']:
            chain += '{ %s = 0; }' % sel
        else:
            chain += '{ __ir2c_exc_pending = 1; %s }' % self.ret_default()
        B.append(chain)


def main():
    ap = argparse.ArgumentParser()
    ap.add_argument('ll')
    ap.add_argument('--entry', action='append', required=True)
    ap.add_argument('--fp', default='exact', choices=['exact', 'uf'])
    ap.add_argument('--no-global-init', action='store_true')
    ap.add_argument('--override', action='append')
    ap.add_argument('--override-file')
    ap.add_argument('--prelude', default='ir2c_prelude.h')
    ap.add_argument('--models', action='append', default=[])
    ap.add_argument('--models-dir')
    ap.add_argument('-o', '--out', required=True)
    ap.add_argument('--info')
    args = ap.parse_args()
    if args.override_file:
        args.override = (args.override or []) + [l.strip() for l in open(args.override_file) if l.strip() and not l.startswith('#')]
    text = open(args.ll).read()
    mod = Module(text)
    mod.resolve_attr_groups()
    em = Emitter(mod, args)
    # a model function M_<name> overrides a definition of <name> in the module
    import os
    em.modeled = set()
    for mf in args.models:
        for cand in (mf, os.path.join(args.models_dir or '.', mf)):
            if os.path.exists(cand):
                em.modeled |= set(re.findall(r'\b(M_[A-Za-z0-9_]+)\s*\(', open(cand).read()))
                break
    pre = os.path.join(args.models_dir or '.', args.prelude)
    if os.path.exists(pre):
        em.modeled |= set(re.findall(r'\b(M_[A-Za-z0-9_]+)\s*\(', open(pre).read()))
    for f in mod.funcs.values():
        if f.lines is not None and 'M_' + cid(f.name) in em.modeled:
            em.override.add(f.name)
    # pass 1 collects the (offset -> type) votes for storage buffers; pass 2 translates with the final payload layouts
    em.final_layouts = False
    run(em, args, write=False)
    em2 = Emitter(mod, args)
    em2.modeled = em.modeled
    em2.override = em.override
    em2.storage_votes = em.storage_votes
    em2.final_layouts = True
    run(em2, args)


# typeinfo helpers -------------------------------------------------------------------------------
def _ti_name(v):
    while v.k == 'ce' and v.a in ('bitcast',):
        v = v.b[0]
    if v.k == 'global':
        return v.a
    if v.k == 'null':
        return None
    raise ValueError('typeinfo operand')


def typeinfo_name(self, v):
    return _ti_name(v)


def typeinfo_id(self, v):
    n = _ti_name(v)
    if n is None:
        return 0
    if n not in self.typeinfos:
        self.typeinfos[n] = len(self.typeinfos) + 1
    self.use_global(n)
    return self.typeinfos[n]


def ti_bases(self):
    """map typeinfo name -> base typeinfo name (single inheritance) from module definitions + std table"""
    bases = dict(STD_EXC_BASES)
    for g in self.m.globals.values():
        if g.name.startswith('_ZTI') and g.init_toks:
            names = [unq(v) for k, v in g.init_toks if k in ('g', 'gq')]
            tis = [n for n in names if n.startswith('_ZTI')]
            if names and 'si_class_type_info' in names[0] and tis:
                bases[g.name] = tis[-1]
            elif names and 'vmi_class_type_info' in names[0] and tis:
                bases[g.name] = tis[0]
            else:
                bases.setdefault(g.name, None)
    return bases


def exc_match_expr(self, target):
    """C condition: the in-flight exception's typeinfo is `target` or derives from it"""
    bases = self.ti_bases()
    der = []
    for n in bases:
        x = n
        seen = 0
        while x is not None and seen < 20:
            if x == target:
                der.append(n)
                break
            x = bases.get(x)
            seen += 1
    if target not in der:
        der.append(target)
    parts = []
    for n in der:
        if n in self.m.globals or n in STD_EXC_BASES:
            self.use_global(n)
            parts.append('__ir2c_exc_ti() == (void*)&%s' % self.gname(n))
    return '(' + ' || '.join(parts) + ')' if parts else '0'


Emitter.typeinfo_name = typeinfo_name
Emitter.typeinfo_id = typeinfo_id
Emitter.ti_bases = ti_bases
Emitter.exc_match_expr = exc_match_expr


def run(em, args, write=True):
    mod = em.m
    entries = list(args.entry)
    for e in entries:
        if e not in mod.funcs:
            sys.exit('ir2c: entry %s not found' % e)
        em.use_func(e)
    if not args.no_global_init:
        for c in mod.ctors:
            em.use_func(c)
    fn_texts = []
    gl_texts = []
    done_f = 0
    done_g = 0
    externals = []
    # worklist
    while done_f < len(em.used_funcs) or done_g < len(em.used_globals):
        while done_f < len(em.used_funcs):
            name = em.used_funcs[done_f]
            done_f += 1
            f = mod.funcs.get(name)
            if f is None:
                continue
            if name.startswith('llvm.'):
                continue
            if em.is_passthrough(name):
                externals.append((name, 'pass'))
                continue
            if f.lines is None or name in em.override:
                externals.append((name, 'ext'))
                if name in em.override and f.lines is not None:
                    em.info['overridden'].append(name)
                continue
            ft = FnTranslator(em, f)
            fn_texts.append((name, ft.translate()))
            em.info['functions'].append(name)
        while done_g < len(em.used_globals):
            name = em.used_globals[done_g]
            done_g += 1
            g = mod.globals.get(name)
            if g is None:
                gl_texts.append((name, None, 'extern-unknown'))
                continue
            if g.external or g.init_toks is None:
                gl_texts.append((name, g, 'extern'))
                continue
            p = Parser(mod.T, g.init_toks)
            v = p.value(g.ty)
            init = em.cexpr(v, True)
            gl_texts.append((name, g, init))
    out = []
    out.append('/* generated by ir2c.py from %s -- do not edit */' % args.ll)
    out.append('#include "%s"' % args.prelude)
    # prototypes & globals need types first; compute decl strings (registers types)
    protos = []
    stubs = []
    modeled = em.modeled
    for name, kind in externals:
        f = mod.funcs[name]
        if kind == 'pass':
            protos.append(em.fn_sig_pass(f))
        else:
            protos.append('static %s;' % em.fn_sig(f, True))
            em.info['externals'].append(name)
            if em.gname(name) not in modeled:
                em.info['stubs'].append(name)
                sig = em.fn_sig(f, True)
                # give parameters names
                rt = 'void*' if f.ret.k == 'ptr' else em.ct(f.ret)
                body = '__IR2C_UNMODELLED("%s");' % name
                if f.ret.k != 'void':
                    body += ' { %s r; memset(&r, 0, sizeof r); return r; }' % rt
                ps = ', '.join('%s a%d' % (('void*' if t.k == 'ptr' else em.ct(t)), i) for i, (t, n, a) in enumerate(f.params))
                if f.va:
                    ps = ps + ', ...' if ps else ''
                elif not ps:
                    ps = 'void'
                stubs.append('static %s %s(%s) { %s }' % (rt, em.gname(name), ps, body))
    for name, txt in fn_texts:
        protos.append('%s;' % em.fn_sig(mod.funcs[name], False))
    gdecl = []
    gdef = []
    for name, g, init in gl_texts:
        c = em.gname(name)
        if g is None:
            if name in STD_EXC_BASES:
                continue
            gdecl.append('char %s; /* unknown global */' % c)
            continue
        ct = em.ct(g.ty)
        if init in ('extern',):
            if name in STD_EXC_BASES:
                continue  # defined by the prelude
            if name.startswith('_ZTVN10__cxxabiv'):
                gdecl.append('%s %s[8]; /* external vtable placeholder (address identity only) */' % (ct, c))
                gdecl.append('#define IR2C_HAVE_%s 1' % c)
                continue
            gdecl.append('%s %s; /* external object: zero-initialised placeholder */' % (ct, c))
            gdecl.append('#define IR2C_HAVE_%s 1' % c)
        else:
            gdecl.append('%s %s;' % (ct, c))
            gdef.append('%s %s = %s;' % (ct, c, init))
    # std typeinfo placeholders used only by models
    types = em.emit_types()
    out += types
    out.append('')
    out += gdecl
    out.append('')
    out += protos
    out.append('')
    for m in args.models:
        out.append('#include "%s"' % m)
    out.append('')
    out += stubs
    out.append('')
    out += gdef
    out.append('')
    for name, txt in fn_texts:
        out.append(txt)
    # global init
    out.append('void __ir2c_global_init(void) {')
    if 'M_ir2c_models_init' in em.modeled:
        out.append('  M_ir2c_models_init();')
    if not args.no_global_init:
        for c in mod.ctors:
            if c in mod.funcs:
                out.append('  %s();' % em.gname(c))
    out.append('}')
    for e in entries:
        # an exception that leaves the harness entry would end the native program in std::terminate; in the flag-based
        # lowering it would silently skip the rest of the harness (vacuous pass), so it is an assertion
        out.append('void __ir2c_entry_%s(void) { __ir2c_global_init(); %s(); '
                   '__CPROVER_assert(!__ir2c_exc_pending, "escape: an exception leaves the harness entry uncaught (native: std::terminate)"); }' % (cid(e), em.gname(e)))
    if not write:
        return
    open(args.out, 'w').write('\n'.join(out) + '\n')
    em.info['typeinfos'] = em.typeinfos
    em.info['n_functions'] = len(fn_texts)
    if args.info:
        json.dump(em.info, open(args.info, 'w'), indent=1)


def fn_sig_pass(self, f):
    ret = self.ct(f.ret)
    ps = ', '.join(self.ct(t) for t, n, a in f.params) or 'void'
    if f.name.startswith('__CPROVER_'):
        return '/* builtin %s */' % f.name
    if f.name.startswith('verif_'):
        return 'static %s %s(%s);' % (ret, self.gname(f.name), ps)
    return '%s %s(%s);' % (ret, self.gname(f.name), ps)


Emitter.fn_sig_pass = fn_sig_pass


def const_string(self, v):
    """bytes of the constant C string a constant pointer expression points to"""
    while v.k == 'ce' and v.a in ('bitcast', 'getelementptr'):
        v = v.b[0] if v.a == 'bitcast' else v.b[1][0]
    if v.k != 'global':
        return '?'
    g = self.m.globals.get(v.a)
    if g is None or not g.init_toks:
        return '?'
    for k, t in g.init_toks:
        if k == 'cstr':
            return decode_cstr(t).rstrip(b'\0').decode('latin1')
    return '?'


Emitter.const_string = const_string

if __name__ == '__main__':
    main()
