/* models of libstdc++.so / libc / libm externals reached from the translated units */
#ifndef STD_MODELS_H
#define STD_MODELS_H
struct ir2c_string { char* p; uint64_t len; union { char buf[16]; uint64_t cap; } u; };
static void ir2c_string_init(void* sret, const char* s) {
  struct ir2c_string* t = (struct ir2c_string*)sret;
  uint64_t n = strlen(s);
  if (n > 15) IR2C_MODEL_LIMIT("model string longer than SSO");
  t->p = t->u.buf; t->len = n; memcpy(t->u.buf, s, n + 1);
}
/* ---- C library pieces used by std::stoi/stol/stoll (via __gnu_cxx::__stoa) */
static int ir2c_errno;
static void* M___errno_location(void) { return &ir2c_errno; }
#define IR2C_ERANGE 34
static uint64_t ir2c_strto(const char* s, char** end, uint32_t base, int is64, int* neg_out, int* overflow) {
  /* exact decimal/any-base parser with the C semantics needed here: optional spaces, sign, digits */
  const char* p = s;
  while (*p == ' ' || (*p >= 9 && *p <= 13)) p++;
  int neg = 0;
  if (*p == '+' || *p == '-') { neg = (*p == '-'); p++; }
  if (base == 0) base = 10;
  uint64_t v = 0; int any = 0; *overflow = 0;
  uint64_t lim = is64 ? (neg ? 0x8000000000000000ULL : 0x7fffffffffffffffULL) : (neg ? 0x8000000000000000ULL : 0x7fffffffffffffffULL);
  for (int i = 0; i < 24; i++) {
    int d;
    if (*p >= '0' && *p <= '9') d = *p - '0';
    else if (*p >= 'a' && *p <= 'z') d = *p - 'a' + 10;
    else if (*p >= 'A' && *p <= 'Z') d = *p - 'A' + 10;
    else break;
    if ((uint32_t)d >= base) break;
    if (v > (lim - (uint64_t)d) / base) { *overflow = 1; v = lim; } else if (!*overflow) v = v * base + (uint64_t)d;
    any = 1; p++;
  }
  if (end) *end = (char*)(any ? p : s);
  *neg_out = neg;
  return v;
}
static uint64_t M_strtol(void* s, void* end, uint32_t base) {
  int neg, ov; uint64_t v = ir2c_strto((const char*)s, (char**)end, base, 1, &neg, &ov);
  if (ov) { ir2c_errno = IR2C_ERANGE; return neg ? 0x8000000000000000ULL : 0x7fffffffffffffffULL; }
  return neg ? (uint64_t)(-(int64_t)v) : v;
}
static uint64_t M_strtoll(void* s, void* end, uint32_t base) { return M_strtol(s, end, base); }
static uint64_t M___isoc23_strtol(void* s, void* end, uint32_t base) { return M_strtol(s, end, base); }
static uint64_t M___isoc23_strtoll(void* s, void* end, uint32_t base) { return M_strtol(s, end, base); }

/* ---- std::cout / std::cerr as sinks: output is discarded, the stream stays good().  The placeholder objects get a
 * vptr whose vbase offset slot leads to a basic_ios with a ctype facet that has its widen table enabled, so that the
 * inlined std::endl / operator<< fast paths run without touching locale code. */
static int64_t ir2c_fake_ostream_vt[8];
#define IR2C_R16(b) b+0,b+1,b+2,b+3,b+4,b+5,b+6,b+7,b+8,b+9,b+10,b+11,b+12,b+13,b+14,b+15
static struct { uint8_t pre[56]; uint8_t widen_ok; uint8_t widen[256]; uint8_t rest[287]; } ir2c_fake_ctype = {
  {0}, 1,
  { IR2C_R16(0), IR2C_R16(16), IR2C_R16(32), IR2C_R16(48), IR2C_R16(64), IR2C_R16(80), IR2C_R16(96), IR2C_R16(112),
    IR2C_R16(128), IR2C_R16(144), IR2C_R16(160), IR2C_R16(176), IR2C_R16(192), IR2C_R16(208), IR2C_R16(224), IR2C_R16(240) },
  {0} };
static void ir2c_init_ostream(void* os) {
  ir2c_fake_ostream_vt[0] = 8;                         /* vbase offset (vptr[-3]): basic_ios follows the vptr */
  *(void**)os = &ir2c_fake_ostream_vt[3];
  *(void**)((char*)os + 8 + 240) = &ir2c_fake_ctype;   /* basic_ios::_M_ctype */
}
static void M__ZNSt8ios_base4InitC1Ev(void* p) { (void)p; }
static void M__ZNSt8ios_base4InitD1Ev(void* p) { (void)p; }
static void M_ir2c_models_init(void) {
#ifdef IR2C_HAVE_XG__ZSt4cout
  ir2c_init_ostream(&XG__ZSt4cout);
#endif
#ifdef IR2C_HAVE_XG__ZSt4cerr
  ir2c_init_ostream(&XG__ZSt4cerr);
#endif
}
static void* M__ZSt16__ostream_insertIcSt11char_traitsIcEERSt13basic_ostreamIT_T0_ES6_PKS3_l(void* os, void* s, uint64_t n) { (void)s; (void)n; return os; }
static void* M__ZNSo3putEc(void* os, uint8_t c) { (void)c; return os; }
static void* M__ZNSo5flushEv(void* os) { return os; }
static void* M__ZNSolsEi(void* os, uint32_t v) { (void)v; return os; }
static void* M__ZNSo9_M_insertIlEERSoT_(void* os, uint64_t v) { (void)v; return os; }
static void* M__ZNSo9_M_insertImEERSoT_(void* os, uint64_t v) { (void)v; return os; }
static void* M__ZNSo9_M_insertIdEERSoT_(void* os, double v) { (void)v; return os; }
static void* M__ZNSo9_M_insertIbEERSoT_(void* os, uint8_t v) { (void)v; return os; }
static void M__ZNKSt5ctypeIcE13_M_widen_initEv(void* ct) { (void)ct; }
static void M__ZNSt9basic_iosIcSt11char_traitsIcEE5clearESt12_Ios_Iostate(void* ios, uint32_t st) { (void)ios; (void)st; }

/* __dynamic_cast for single, non-virtual inheritance (the whole AST hierarchy): walk the __si_class_type_info chain */
#ifdef IR2C_HAVE_XG__ZTVN10__cxxabiv120__si_class_type_infoE
static void* M___dynamic_cast(void* obj, void* src, void* dst, uint64_t hint) {
  (void)src; (void)hint;
  if (!obj) return 0;
  void** vt = *(void***)obj;
  void* ti = vt[-1];
  void* si_vt = (void*)&XG__ZTVN10__cxxabiv120__si_class_type_infoE[2];
  for (int i = 0; i < 8; i++) {
    if (ti == dst) return obj;
    if (*(void**)ti != si_vt) return 0;
    ti = ((void**)ti)[2];
  }
  return 0;
}
#endif
/* threads: the GC timer thread is never run (its only effect, raising the request flag, is modelled by the harness);
 * join() sets a ghost flag so that "the thread is stopped when a run ends" can be asserted */
static int ir2c_thread_started, ir2c_thread_joined;
static void M__ZNSt18condition_variableC1Ev(void* cv) { (void)cv; }
static void M__ZNSt18condition_variableD1Ev(void* cv) { (void)cv; }
static void M__ZNSt18condition_variable10notify_allEv(void* cv) { (void)cv; }
static void M__ZNSt18condition_variable10notify_oneEv(void* cv) { (void)cv; }
static void M__ZNSt6thread4joinEv(void* t) { ir2c_thread_joined++; *(uint64_t*)t = 0; }
static void M__ZNSt6thread15_M_start_threadESt10unique_ptrINS_6_StateESt14default_deleteIS1_EEPFvvE(void* t, void* state, void* fn) {
  (void)state; (void)fn; ir2c_thread_started++; *(uint64_t*)t = 1;   /* non-zero id: joinable */
}
static uint32_t M_pthread_mutex_lock(void* m) { (void)m; return 0; }
static uint32_t M_pthread_mutex_unlock(void* m) { (void)m; return 0; }
static uint32_t M___pthread_key_create(void* k, void* d) { (void)k; (void)d; return 0; }

/* <cctype> in the "C" locale */
static uint32_t M_isspace(uint32_t c) { return c == ' ' || (c >= 9 && c <= 13); }
static uint32_t M_isdigit(uint32_t c) { return c >= '0' && c <= '9'; }
static uint32_t M_isalpha(uint32_t c) { return (c >= 'a' && c <= 'z') || (c >= 'A' && c <= 'Z'); }
static uint32_t M_isalnum(uint32_t c) { return M_isalpha(c) || M_isdigit(c); }
static uint32_t M_isupper(uint32_t c) { return c >= 'A' && c <= 'Z'; }
static uint32_t M_islower(uint32_t c) { return c >= 'a' && c <= 'z'; }
static uint32_t M_tolower(uint32_t c) { return (c >= 'A' && c <= 'Z') ? c + 32 : c; }
static uint32_t M_toupper(uint32_t c) { return (c >= 'a' && c <= 'z') ? c - 32 : c; }
/* std::_Hash_bytes: any function of the bytes is a correct hash for find/insert/erase; iteration ORDER of unordered
 * containers is therefore not faithful and no check depends on it. length + first + last byte keeps lookups cheap. */
static uint64_t M__ZSt11_Hash_bytesPKvmm(void* p, uint64_t len, uint64_t seed) {
  (void)seed;
  const uint8_t* b = (const uint8_t*)p;
  (void)b; (void)len; return 0;  /* one bucket chain: lookups with a symbolic key walk concrete node pointers */
}
/* _Prime_rehash_policy (libstdc++.so): fixed growth 13 -> 29 -> 59 -> 127 -> 257 -> 541 */
struct ir2c_rehash_policy { float max_load; uint64_t next_resize; };
static uint64_t ir2c_next_prime(uint64_t n) {
  static const uint64_t pr[] = {2, 5, 13, 29, 59, 127, 257, 541, 1109, 2357, 5087, 10273, 20753, 42043};
  for (int i = 0; i < 14; i++) if (pr[i] >= n) return pr[i];
  IR2C_MODEL_LIMIT("hash table larger than 42043 buckets");
  return n;
}
static uint64_t M__ZNKSt8__detail20_Prime_rehash_policy11_M_next_bktEm(void* self, uint64_t n) {
  struct ir2c_rehash_policy* p = (struct ir2c_rehash_policy*)self;
  uint64_t r = ir2c_next_prime(n);
  p->next_resize = (uint64_t)((double)r * (double)p->max_load);   /* ceil not needed: policy only has to be monotone */
  return r;
}
#ifdef IR2C_HAVE_L_i8_i64
static struct L_i8_i64 M__ZNKSt8__detail20_Prime_rehash_policy14_M_need_rehashEmmm(void* self, uint64_t n_bkt, uint64_t n_elt, uint64_t n_ins) {
  struct ir2c_rehash_policy* p = (struct ir2c_rehash_policy*)self;
  struct L_i8_i64 r; r.f0 = 0; r.f1 = 0;
  if (n_elt + n_ins > p->next_resize) {
    uint64_t want = (uint64_t)((double)(n_elt + n_ins) / (double)p->max_load) + 1;
    if (want < n_bkt * 2) want = n_bkt * 2;
    if (want > n_bkt) { r.f0 = 1; r.f1 = M__ZNKSt8__detail20_Prime_rehash_policy11_M_next_bktEm(self, want); return r; }
    p->next_resize = (uint64_t)((double)n_bkt * (double)p->max_load);
  }
  return r;
}
#endif
/* basic_string::_M_replace(pos, len1, s, len2): libstdc++'s version decides with relational pointer comparisons whether
 * `s` aliases the string's own buffer; across distinct objects that comparison has no fixed answer in CBMC and the
 * (never taken) aliasing branch explodes symbolic execution.  Model: the standard semantics for a source that does
 * not alias; an aliasing source is a model limit (asserted). */
#ifdef __CPROVER__
#define IR2C_ALIASES(s, t) (__CPROVER_same_object((s), (t)->p))
#else
#define IR2C_ALIASES(s, t) ((const char*)(s) >= (t)->p && (const char*)(s) <= (t)->p + (t)->len)
#endif
static void* M__ZNSt7__cxx1112basic_stringIcSt11char_traitsIcESaIcEE10_M_replaceEmmPKcm(void* self, uint64_t pos, uint64_t len1, void* src, uint64_t len2) {
  struct ir2c_string* t = (struct ir2c_string*)self;
  uint64_t old = t->len;
  if (len2 > 0x3fffffffffffffffULL - (old - len1)) { M__ZSt20__throw_length_errorPKc((void*)"basic_string::_M_replace"); return self; }
  uint64_t newlen = old + len2 - len1;
  uint64_t cap = (t->p == t->u.buf) ? 15 : t->u.cap;
  uint64_t tail = old - pos - len1;
  if (len2 && IR2C_ALIASES(src, t)) IR2C_MODEL_LIMIT("basic_string::_M_replace with a source inside the string itself");
  if (newlen <= cap) {
    char* p = t->p + pos;
    if (tail && len1 != len2) __ir2c_memmove(p + len2, p + len1, tail);
    if (len2) __ir2c_memcpy(p, src, len2);
  } else {
    uint64_t newcap = newlen;
    if (newcap < 2 * cap) newcap = 2 * cap;
    char* np = (char*)M__Znwm(newcap + 1);
    if (pos) __ir2c_memcpy(np, t->p, pos);
    if (len2) __ir2c_memcpy(np + pos, src, len2);
    if (tail) __ir2c_memcpy(np + pos + len2, t->p + pos + len1, tail);
    if (t->p != t->u.buf) M__ZdlPv(t->p);
    t->p = np;
    t->u.cap = newcap;
  }
  t->len = newlen;
  t->p[newlen] = 0;
  return self;
}
/* std::runtime_error base sub-object: contents never inspected (what() text is outside every claim) */
static void M__ZNSt13runtime_errorC2ERKNSt7__cxx1112basic_stringIcSt11char_traitsIcESaIcEEE(void* self, void* s) { (void)self; (void)s; }
static void M__ZNSt13runtime_errorC1ERKNSt7__cxx1112basic_stringIcSt11char_traitsIcESaIcEEE(void* self, void* s) { (void)self; (void)s; }
static void M__ZNSt13runtime_errorC2EPKc(void* self, void* s) { (void)self; (void)s; }
static void M__ZNSt13runtime_errorC1EPKc(void* self, void* s) { (void)self; (void)s; }
static void M__ZNSt13runtime_errorC2ERKS_(void* self, void* o) { (void)self; (void)o; }
static void M__ZNSt13runtime_errorC1ERKS_(void* self, void* o) { (void)self; (void)o; }
static void M__ZNSt13runtime_errorD2Ev(void* self) { (void)self; }
static void M__ZNSt13runtime_errorD1Ev(void* self) { (void)self; }
static void* M__ZNKSt13runtime_error4whatEv(void* self) { (void)self; return (void*)""; }
static void M__ZNSt9exceptionD2Ev(void* self) { (void)self; }
/* bloch::support::format(category, line, col, msg): message text is outside every claim -> "" */
static void M__ZN5bloch7support6formatENS0_13ErrorCategoryEiiRKNSt7__cxx1112basic_stringIcSt11char_traitsIcESaIcEEE(void* sret, uint32_t cat, uint32_t line, uint32_t col, void* msg) {
  (void)cat; (void)line; (void)col; (void)msg; ir2c_string_init(sret, "");
}
/* Signature labels.  bloch::runtime::runtimeSignatureLabel(name, params) and the analyser's methodSignatureLabel(name, params)
   (both file-local) build "name(type,...)" through std::ostringstream, whose locale/streambuf machinery is not translated.
   Model: "name(" + one letter per parameter kind + ")".  The label is only ever compared for equality, and the model is
   injective on overload sets whose parameters are primitives; a class-typed parameter is a model limit (reported, not guessed). */
static void ir2c_signature_label(void* sret, void* name, void* params, uint64_t elem, uint64_t class_off) {
  struct ir2c_string* nm = (struct ir2c_string*)name;
  char** vec = (char**)params;
  char buf[16]; uint64_t n = 0;
  uint64_t cnt = (uint64_t)IR2C_PTRDIFF(vec[1], vec[0]) / elem;
  if (nm->len + cnt + 2 > 15) IR2C_MODEL_LIMIT("model signature label longer than SSO");
  for (uint64_t i = 0; i < nm->len; i++) buf[n++] = nm->p[i];
  buf[n++] = '(';
  for (uint64_t i = 0; i < cnt; i++) {
    char* e = vec[0] + elem * i;
    struct ir2c_string* cn = (struct ir2c_string*)(e + class_off);
    if (cn->len) IR2C_MODEL_LIMIT("model signature label: class-typed parameter");
    buf[n++] = (char)('a' + *(int32_t*)e);
  }
  buf[n++] = ')'; buf[n] = 0;
  ir2c_string_init(sret, buf);
}
/* RuntimeTypeInfo = { i32 kind; std::string className @8; vector typeArgs @40 } (64 bytes) */
static void M__ZN5bloch7runtimeL21runtimeSignatureLabelERKNSt7__cxx1112basic_stringIcSt11char_traitsIcESaIcEEERKSt6vectorINS0_15RuntimeTypeInfoESaISA_EE(void* sret, void* name, void* params) {
  ir2c_signature_label(sret, name, params, 64, 8);
}
/* SemanticAnalyser::TypeInfo = { i32 value; std::string className @8; vector typeArgs @40; bool isTypeParam @64 } (72 bytes) */
static void M__ZN5bloch8compiler12_GLOBAL__N_120methodSignatureLabelERKNSt7__cxx1112basic_stringIcSt11char_traitsIcESaIcEEERKSt6vectorINS0_16SemanticAnalyser8TypeInfoESaISC_EE(void* sret, void* name, void* params) {
  ir2c_signature_label(sret, name, params, 72, 8);
}
/* std::to_string(double) body helper: fixed token (six-decimal rendering is libc formatting, outside the claim) */
static void M__ZN9__gnu_cxx12__to_xstringINSt7__cxx1112basic_stringIcSt11char_traitsIcESaIcEEEcEET_PFiPT0_mPKS8_P13__va_list_tagEmSB_z(void* sret, void* conv, uint64_t n, void* fmt, ...) {
  (void)conv; (void)n; (void)fmt; ir2c_string_init(sret, "<ANGLE>");
}
#ifdef IR2C_HAVE_L_d_d
static struct L_d_d M_cexp(double re, double im) {
  struct L_d_d r;
  if ((__ir2c_d2u(re) & ~IR2C_SIGN) == 0) { r.f0 = M_cos(im); r.f1 = M_sin(im); return r; }
#ifdef __CPROVER__
  IR2C_MODEL_LIMIT("cexp with non-zero real part");
#else
  { double e = exp(re); r.f0 = e * cos(im); r.f1 = e * sin(im); }
#endif
  return r;
}
static struct L_d_d M___muldc3(double a, double b, double c, double d) {
  struct L_d_d r;
#ifdef __CPROVER__
  __CPROVER_assert(0, "ir2c: __muldc3 reached (NaN in complex product)"); __CPROVER_assume(0);
#endif
  r.f0 = a * c - b * d; r.f1 = a * d + b * c; return r;
}
#endif
#endif
