/* models of libstdc++.so / libc / libm externals reached from the translated units */
#ifndef STD_MODELS_H
#define STD_MODELS_H
struct ir2c_string { char* p; uint64_t len; union { char buf[16]; uint64_t cap; } u; };
static void ir2c_string_init(void* sret, const char* s) {
  struct ir2c_string* t = (struct ir2c_string*)sret;
  uint64_t n = strlen(s);
  if (n > 15) IR2C_MODEL_LIMIT("model string longer than SSO");
  t->p = t->u.buf; t->len = n; memcpy(t->u.buf, s, n + 1);
}
/* basic_string::_M_replace(pos, len1, s, len2): libstdc++'s version decides with relational pointer comparisons whether
 * `s` aliases the string's own buffer; across distinct objects that comparison has no fixed answer in CBMC and the
 * (never taken) aliasing branch explodes symbolic execution.  Model: the standard semantics for a source that does
 * not alias; an aliasing source is a model limit (asserted). */
#ifdef __CPROVER__
#define IR2C_ALIASES(s, t) (__CPROVER_same_object((s), (t)->p))
#else
#define IR2C_ALIASES(s, t) ((const char*)(s) >= (t)->p && (const char*)(s) <= (t)->p + (t)->len)
#endif
static void* M__ZNSt7__cxx1112basic_stringIcSt11char_traitsIcESaIcEE10_M_replaceEmmPKcm(void* self, uint64_t pos, uint64_t len1, void* src, uint64_t len2) {
  struct ir2c_string* t = (struct ir2c_string*)self;
  uint64_t old = t->len;
  if (len2 > 0x3fffffffffffffffULL - (old - len1)) { M__ZSt20__throw_length_errorPKc((void*)"basic_string::_M_replace"); return self; }
  uint64_t newlen = old + len2 - len1;
  uint64_t cap = (t->p == t->u.buf) ? 15 : t->u.cap;
  uint64_t tail = old - pos - len1;
  if (len2 && IR2C_ALIASES(src, t)) IR2C_MODEL_LIMIT("basic_string::_M_replace with a source inside the string itself");
  if (newlen <= cap) {
    char* p = t->p + pos;
    if (tail && len1 != len2) __ir2c_memmove(p + len2, p + len1, tail);
    if (len2) __ir2c_memcpy(p, src, len2);
  } else {
    uint64_t newcap = newlen;
    if (newcap < 2 * cap) newcap = 2 * cap;
    char* np = (char*)M__Znwm(newcap + 1);
    if (pos) __ir2c_memcpy(np, t->p, pos);
    if (len2) __ir2c_memcpy(np + pos, src, len2);
    if (tail) __ir2c_memcpy(np + pos + len2, t->p + pos + len1, tail);
    if (t->p != t->u.buf) M__ZdlPv(t->p);
    t->p = np;
    t->u.cap = newcap;
  }
  t->len = newlen;
  t->p[newlen] = 0;
  return self;
}
/* std::runtime_error base sub-object: contents never inspected (what() text is outside every claim) */
static void M__ZNSt13runtime_errorC2ERKNSt7__cxx1112basic_stringIcSt11char_traitsIcESaIcEEE(void* self, void* s) { (void)self; (void)s; }
static void M__ZNSt13runtime_errorC1ERKNSt7__cxx1112basic_stringIcSt11char_traitsIcESaIcEEE(void* self, void* s) { (void)self; (void)s; }
static void M__ZNSt13runtime_errorC2EPKc(void* self, void* s) { (void)self; (void)s; }
static void M__ZNSt13runtime_errorC1EPKc(void* self, void* s) { (void)self; (void)s; }
static void M__ZNSt13runtime_errorD2Ev(void* self) { (void)self; }
static void M__ZNSt13runtime_errorD1Ev(void* self) { (void)self; }
static void* M__ZNKSt13runtime_error4whatEv(void* self) { (void)self; return (void*)""; }
static void M__ZNSt9exceptionD2Ev(void* self) { (void)self; }
/* bloch::support::format(category, line, col, msg): message text is outside every claim -> "" */
static void M__ZN5bloch7support6formatENS0_13ErrorCategoryEiiRKNSt7__cxx1112basic_stringIcSt11char_traitsIcESaIcEEE(void* sret, uint32_t cat, uint32_t line, uint32_t col, void* msg) {
  (void)cat; (void)line; (void)col; (void)msg; ir2c_string_init(sret, "");
}
/* std::to_string(double) body helper: fixed token (six-decimal rendering is libc formatting, outside the claim) */
static void M__ZN9__gnu_cxx12__to_xstringINSt7__cxx1112basic_stringIcSt11char_traitsIcESaIcEEEcEET_PFiPT0_mPKS8_P13__va_list_tagEmSB_z(void* sret, void* conv, uint64_t n, void* fmt, ...) {
  (void)conv; (void)n; (void)fmt; ir2c_string_init(sret, "<ANGLE>");
}
#ifdef IR2C_HAVE_L_d_d
static struct L_d_d M_cexp(double re, double im) {
  struct L_d_d r;
  if ((__ir2c_d2u(re) & ~IR2C_SIGN) == 0) { r.f0 = M_cos(im); r.f1 = M_sin(im); return r; }
#ifdef __CPROVER__
  IR2C_MODEL_LIMIT("cexp with non-zero real part");
#else
  { double e = exp(re); r.f0 = e * cos(im); r.f1 = e * sin(im); }
#endif
  return r;
}
static struct L_d_d M___muldc3(double a, double b, double c, double d) {
  struct L_d_d r;
#ifdef __CPROVER__
  __CPROVER_assert(0, "ir2c: __muldc3 reached (NaN in complex product)"); __CPROVER_assume(0);
#endif
  r.f0 = a * c - b * d; r.f1 = a * d + b * c; return r;
}
#endif
#endif
