/* models of libstdc++.so / libc / libm externals reached from the translated units */
#ifndef STD_MODELS_H
#define STD_MODELS_H
struct ir2c_string { char* p; uint64_t len; union { char buf[16]; uint64_t cap; } u; };
static void ir2c_string_init(void* sret, const char* s) {
  struct ir2c_string* t = (struct ir2c_string*)sret;
  uint64_t n = strlen(s);
  if (n > 15) IR2C_MODEL_LIMIT("model string longer than SSO");
  t->p = t->u.buf; t->len = n; memcpy(t->u.buf, s, n + 1);
}
/* std::runtime_error base sub-object: contents never inspected (what() text is outside every claim) */
static void M__ZNSt13runtime_errorC2ERKNSt7__cxx1112basic_stringIcSt11char_traitsIcESaIcEEE(void* self, void* s) { (void)self; (void)s; }
static void M__ZNSt13runtime_errorC1ERKNSt7__cxx1112basic_stringIcSt11char_traitsIcESaIcEEE(void* self, void* s) { (void)self; (void)s; }
static void M__ZNSt13runtime_errorC2EPKc(void* self, void* s) { (void)self; (void)s; }
static void M__ZNSt13runtime_errorC1EPKc(void* self, void* s) { (void)self; (void)s; }
static void M__ZNSt13runtime_errorD2Ev(void* self) { (void)self; }
static void M__ZNSt13runtime_errorD1Ev(void* self) { (void)self; }
static void* M__ZNKSt13runtime_error4whatEv(void* self) { (void)self; return (void*)""; }
static void M__ZNSt9exceptionD2Ev(void* self) { (void)self; }
/* bloch::support::format(category, line, col, msg): message text is outside every claim -> "" */
static void M__ZN5bloch7support6formatENS0_13ErrorCategoryEiiRKNSt7__cxx1112basic_stringIcSt11char_traitsIcESaIcEEE(void* sret, uint32_t cat, uint32_t line, uint32_t col, void* msg) {
  (void)cat; (void)line; (void)col; (void)msg; ir2c_string_init(sret, "");
}
/* std::to_string(double) body helper: fixed token (six-decimal rendering is libc formatting, outside the claim) */
static void M__ZN9__gnu_cxx12__to_xstringINSt7__cxx1112basic_stringIcSt11char_traitsIcESaIcEEEcEET_PFiPT0_mPKS8_P13__va_list_tagEmSB_z(void* sret, void* conv, uint64_t n, void* fmt, ...) {
  (void)conv; (void)n; (void)fmt; ir2c_string_init(sret, "<ANGLE>");
}
static struct L_d_d M_cexp(double re, double im) {
  struct L_d_d r;
  if ((__ir2c_d2u(re) & ~IR2C_SIGN) == 0) { r.f0 = M_cos(im); r.f1 = M_sin(im); return r; }
#ifdef __CPROVER__
  IR2C_MODEL_LIMIT("cexp with non-zero real part");
#else
  { double e = exp(re); r.f0 = e * cos(im); r.f1 = e * sin(im); }
#endif
  return r;
}
static struct L_d_d M___muldc3(double a, double b, double c, double d) {
  struct L_d_d r;
#ifdef __CPROVER__
  __CPROVER_assert(0, "ir2c: __muldc3 reached (NaN in complex product)"); __CPROVER_assume(0);
#endif
  r.f0 = a * c - b * d; r.f1 = a * d + b * c; return r;
}
#endif
