/* harness interface for generated C (CBMC and native-generated-C builds) */
#ifndef VERIF_RT_H
#define VERIF_RT_H
#ifndef VERIF_P0
#define VERIF_P0 0
#endif
#ifndef VERIF_P1
#define VERIF_P1 0
#endif
#ifndef VERIF_P2
#define VERIF_P2 0
#endif
#ifndef VERIF_P3
#define VERIF_P3 0
#endif
#ifndef VERIF_P4
#define VERIF_P4 0
#endif
#ifndef VERIF_P5
#define VERIF_P5 0
#endif
static uint32_t verif_param(uint32_t i) {
  switch (i) { case 0: return VERIF_P0; case 1: return VERIF_P1; case 2: return VERIF_P2; case 3: return VERIF_P3;
               case 4: return VERIF_P4; default: return VERIF_P5; }
}
static uint64_t verif_nd_u64(void) { return ir2c_nd(~0ULL); }
static uint32_t verif_nd_u32(void) { return (uint32_t)ir2c_nd(0xffffffffULL); }
static uint32_t verif_nd_int(void) { return (uint32_t)ir2c_nd(0xffffffffULL); }
static uint8_t verif_nd_u8(void) { return (uint8_t)ir2c_nd(0xffULL); }
static _Bool verif_nd_bool(void) { return (_Bool)ir2c_nd(1ULL); }
/* finite doubles with exponent in [1023-30, 1023+30] or exactly zero: keeps native replays away from overflow/denormals */
static double verif_nd_double(void) {
  ir2c_u64 u = ir2c_nd(~0ULL);
  ir2c_u64 e = (u >> 52) & 0x7ff;
  __CPROVER_assume((u & ~IR2C_SIGN) == 0 || (e >= 1023 - 30 && e <= 1023 + 30));
  return __ir2c_u2d(u);
}
static double verif_nd_unit(void) {
  ir2c_u64 u = ir2c_nd(~0ULL);
  __CPROVER_assume(u < IR2C_ONE);  /* non-negative and < 1.0 */
  return __ir2c_u2d(u);
}
static _Bool verif_feq(double a, double b) {
#ifdef __CPROVER__
  ir2c_u64 x = __ir2c_d2u(a), y = __ir2c_d2u(b);
  return x == y || (((x | y) & ~IR2C_SIGN) == 0);
#else
  double d = a - b; if (d < 0) d = -d; return d <= 1e-9;
#endif
}
static _Bool verif_native(void) {
#ifdef __CPROVER__
  return 0;
#else
  return 1;
#endif
}
static void verif_reach(void) {
#ifdef WITNESS
  __CPROVER_assert(0, "witness-reach");
#endif
}
#ifdef __CPROVER__
static void verif_note(uint32_t tag, uint64_t v) { (void)tag; (void)v; }
#else
extern void ir2c_native_note(uint32_t tag, uint64_t v);
static void verif_note(uint32_t tag, uint64_t v) { ir2c_native_note(tag, v); }
#endif
#endif
